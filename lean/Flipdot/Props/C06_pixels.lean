/-
C06 (continued) — the printed picture determines every pixel: the character for pixel (x, y) sits at a fixed
position of the text, so two pages of the same size print the same text only if they show the same picture, and a
`set_pixel` changes the text at exactly that one position.
-/
import Flipdot.Props.C06_render
namespace Flipdot.C06
open Flipdot

theorem rows_getElem (f : Nat → Nat → Bool) (w : Nat) : ∀ n y0 y j, y < n → j < w + 3 →
    ((List.range' y0 n).flatMap (specRow f w))[(w + 3) * y + j]? = (specRow f w (y0 + y))[j]? := by
  intro n
  induction n with
  | zero => intro y0 y j hy; omega
  | succ n ih =>
    intro y0 y j hy hj
    rw [List.range'_succ, List.flatMap_cons]
    cases y with
    | zero =>
      rw [List.getElem?_append_left (by rw [specRow_length]; omega)]
      simp
    | succ y =>
      rw [List.getElem?_append_right (by rw [specRow_length, Nat.mul_succ]; omega)]
      have e : (w + 3) * (y + 1) + j - (specRow f w y0).length = (w + 3) * y + j := by
        rw [specRow_length, Nat.mul_succ]; omega
      rw [e, ih (y0 + 1) y j (by omega) hj]
      congr 2; omega

/-- Where pixel (x, y) is printed. -/
def charPos (w x y : Nat) : Nat := (w + 3) * (y + 1) + 1 + x

theorem specRender_pixel (f : Nat → Nat → Bool) (w h x y : Nat) (hx : x < w) (hy : y < h) :
    (specRender f w h)[charPos w x y]? = some (dot (f x y)) := by
  have hrows := rows_getElem f w h 0 y (1 + x) hy (by omega)
  have hlen := rows_length f w h 0
  unfold specRender charPos
  rw [List.getElem?_append_left (by
    simp only [List.length_append, border_length, hlen, List.length_cons, List.length_nil]
    have : (w + 3) * (y + 1) + (w + 3) ≤ h * (w + 3) + (w + 3) := by
      rw [← Nat.mul_succ, ← Nat.succ_mul, Nat.mul_comm]; exact Nat.mul_le_mul_right _ (by omega)
    omega)]
  rw [List.getElem?_append_right (by simp [border_length]; rw [Nat.mul_succ]; omega)]
  have e : (w + 3) * (y + 1) + 1 + x - (border w ++ [10]).length = (w + 3) * y + (1 + x) := by
    simp only [List.length_append, border_length, List.length_cons, List.length_nil]
    rw [Nat.mul_succ]; omega
  rw [e, hrows]
  simp only [specRow, Nat.zero_add]
  rw [show 1 + x = x + 1 by omega, List.getElem?_cons_succ,
    List.getElem?_append_left (by simp; omega)]
  simp [hx]

theorem dot_inj (a b : Bool) (h : dot a = dot b) : a = b := by
  cases a <;> cases b <;> first | rfl | (exact absurd h (by decide))

/-- Two pictures of the same size that print the same are the same picture. -/
theorem specRender_injective (f g : Nat → Nat → Bool) (w h : Nat)
    (e : specRender f w h = specRender g w h) : ∀ x y, x < w → y < h → f x y = g x y := by
  intro x y hx hy
  have h1 := specRender_pixel f w h x y hx hy
  have h2 := specRender_pixel g w h x y hx hy
  rw [e, h2] at h1
  exact (dot_inj _ _ (Option.some.inj h1)).symm

/-- Two well-formed pages of the same size that print the same read the same at every pixel. -/
theorem render_determines_pixels (p q : Page) (hp : p.WF) (hq : q.WF) (hw : p.w = q.w) (hh : p.h = q.h)
    (e : p.render = q.render) : ∀ x y, x < p.w → y < p.h → p.get x y = q.get x y := by
  intro x y hx hy
  rw [render_never_panics p hp, render_never_panics q hq, ← hw, ← hh] at e
  have hpic := specRender_injective _ _ _ _ (Except.ok.inj e) x y hx hy
  have h1 := (shows_self p hp).2.2.2.1 x y hx hy
  have h2 := (shows_self q hq).2.2.2.1 x y (hw ▸ hx) (hh ▸ hy)
  rw [h1, h2, hpic]

/-- `set_pixel` changes the printed text at the position of that pixel and nowhere else. -/
theorem render_set_frame (p p' : Page) (hp : p.WF) (x y : Nat) (v : Bool) (hx : x < p.w) (hy : y < p.h)
    (h : p.set x y v = .ok p') :
    ∃ s s', p.render = .ok s ∧ p'.render = .ok s' ∧ s'.length = s.length ∧
      s'[charPos p.w x y]? = some (dot v) ∧
      ∀ x' y', x' < p.w → y' < p.h → (x', y') ≠ (x, y) → s'[charPos p.w x' y']? = s[charPos p.w x' y']? := by
  obtain ⟨q, hq, hs⟩ := render_history p hp [.set x y v] (by intro op hop; simp at hop; subst hop; exact ⟨hx, hy⟩)
  have hq' : q = p' := by
    simp only [applyOps, applyOp, h] at hq
    exact (Except.ok.inj hq).symm
  subst hq'
  refine ⟨_, _, render_never_panics p hp, hs, by simp [specRender_length], ?_, ?_⟩
  · rw [specRender_pixel _ _ _ x y hx hy]; simp [specOps, specOp]
  · intro x' y' hx' hy' hne
    rw [specRender_pixel _ _ _ x' y' hx' hy', specRender_pixel _ _ _ x' y' hx' hy']
    have : ¬ (x' = x ∧ y' = y) := fun ⟨a, b⟩ => hne (by rw [a, b])
    simp [specOps, specOp, this]

end Flipdot.C06
