/-
C10 (continued) — the polling protocol of `show_loaded_page` / `load_next_page` is exact as well: a conversation
satisfies `SwitchSpec` (and is not the model's own out-of-fuel artefact) if and only if the controller produces it,
so also here the replies seen so far determine every message sent and the outcome.
-/
import Flipdot.Lemmas.SwitchComplete
namespace Flipdot.C10
open Flipdot

theorem switchPage_exact (a : UInt16) (target trigger : State) (op : Op) (c : List Ex) (o : Outcome Unit)
    (ho : o ≠ .outOfFuel) :
    SwitchSpec a target trigger op c o ↔
      ∃ fuel script, (switchPage a target trigger op fuel).run script = (c, o) := by
  constructor
  · intro h
    exact ⟨c.length + 1, repliesOf c, (switchPage_complete a target trigger op c o h ho _ (Nat.lt_succ_self _)).run⟩
  · rintro ⟨fuel, script, hs⟩
    have := (switchPage_refines a target trigger op fuel).run script
    rw [hs] at this; exact this

/-- `show_loaded_page`: the documented polling protocol allows exactly the conversations the controller has. -/
theorem showLoadedPage_exact (a : UInt16) (c : List Ex) (o : Outcome Unit) (ho : o ≠ .outOfFuel) :
    SwitchSpec a .pageShown .pageLoaded .showLoadedPage c o ↔
      ∃ fuel script, (showLoadedPage a fuel).run script = (c, o) :=
  switchPage_exact a _ _ _ c o ho

/-- `load_next_page` likewise. -/
theorem loadNextPage_exact (a : UInt16) (c : List Ex) (o : Outcome Unit) (ho : o ≠ .outOfFuel) :
    SwitchSpec a .pageLoaded .pageShown .loadNextPage c o ↔
      ∃ fuel script, (loadNextPage a fuel).run script = (c, o) :=
  switchPage_exact a _ _ _ c o ho

/-- The polling protocol is functional: two allowed conversations with the same replies are the same conversation
    with the same outcome — however many in-progress reports the sign sends. -/
theorem switchSpec_functional (a : UInt16) (target trigger : State) (op : Op) (c c' : List Ex) (o o' : Outcome Unit)
    (ho : o ≠ .outOfFuel) (ho' : o' ≠ .outOfFuel)
    (h : SwitchSpec a target trigger op c o) (h' : SwitchSpec a target trigger op c' o')
    (hr : repliesOf c = repliesOf c') : c = c' ∧ o = o' := by
  -- run both with the same (large enough) fuel
  let fuel := c.length + c'.length + 1
  have e1 := (switchPage_complete a target trigger op c o h ho fuel (by omega)).run
  have e2 := (switchPage_complete a target trigger op c' o' h' ho' fuel (by omega)).run
  rw [hr, e2] at e1
  simpa using e1.symm

/-- Non-vacuity: a sign that reports "show in progress" three times and then "shown" — four polls, success. -/
example :
    SwitchSpec 3 .pageShown .pageLoaded .showLoadedPage
      [ans (.queryState 3) (some (.reportState 3 .pageShowInProgress)),
       ans (.queryState 3) (some (.reportState 3 .pageShowInProgress)),
       ans (.queryState 3) (some (.reportState 3 .pageShowInProgress)),
       ans (.queryState 3) (some (.reportState 3 .pageShown))] (.ok ()) := by
  refine .waiting _ _ _ (by decide) (by decide) (by decide) (.inr rfl) ?_
  refine .waiting _ _ _ (by decide) (by decide) (by decide) (.inr rfl) ?_
  refine .waiting _ _ _ (by decide) (by decide) (by decide) (.inr rfl) ?_
  exact .reached

end Flipdot.C10
