/-
C15 — Reading a frame consumes exactly one line; writing delivers the whole frame.
Theorems about the stream model of Model/Io.lean (std's BufReader / read_until / write_all are
modelled from their contracts — see the header of that file); the composite is tied to the real code
by the instrumented-stream correspondence.
-/
import Flipdot.Model.Io
import Flipdot.Lemmas.Frame
namespace Flipdot.C15
open Flipdot

/-- The part of a schedule before the line feed: bytes other than LF, and interrupted reads. -/
def NoLF (pre : List REvent) : Prop :=
  ∀ e ∈ pre, e = .interrupted ∨ ∃ b, e = .byte b ∧ b ≠ 10

/-- The data bytes of a schedule, whatever its fragmentation and interrupts. -/
def bytesOf : List REvent → List UInt8
  | [] => []
  | .byte b :: rest => b :: bytesOf rest
  | _ :: rest => bytesOf rest

theorem readUntilLF_line (pre post : List REvent) (acc : List UInt8) (h : NoLF pre) :
    readUntilLF (pre ++ .byte 10 :: post) acc = (some (acc ++ bytesOf pre ++ [10]), post) := by
  induction pre generalizing acc with
  | nil => simp [readUntilLF, bytesOf]
  | cons e pre ih =>
    have hpre : NoLF pre := fun x hx => h x (by simp [hx])
    rcases h e (by simp) with rfl | ⟨b, rfl, hb⟩
    · simp only [List.cons_append, readUntilLF, bytesOf]; exact ih acc hpre
    · simp only [List.cons_append, readUntilLF, hb, ↓reduceIte, bytesOf]
      rw [ih (acc ++ [b]) hpre]; simp

def resultOf : Except FrameErr Frame → IoResult Frame
  | .ok f => .ok f
  | .error e => .frameErr e

/-- Reading consumes the bytes up to and including the first line feed and not one more —
    whatever the fragmentation (the schedule is at byte granularity) and however many interrupted
    reads occur — and the result is the decoding of exactly that line. -/
theorem read_consumes_line (pre post : List REvent) (h : NoLF pre) :
    frameRead (pre ++ .byte 10 :: post) = (resultOf (dec (bytesOf pre ++ [10])), post) := by
  unfold frameRead
  rw [readUntilLF_line pre post [] h]
  simp only [List.nil_append]
  cases dec (bytesOf pre ++ [10]) <;> rfl

/-- Two schedules carrying the same bytes give the same result and leave the same rest:
    fragmentation and interrupts are invisible. -/
theorem read_interrupt_invariant (pre pre' post : List REvent) (h : NoLF pre) (h' : NoLF pre')
    (hb : bytesOf pre = bytesOf pre') :
    frameRead (pre ++ .byte 10 :: post) = frameRead (pre' ++ .byte 10 :: post) := by
  rw [read_consumes_line pre post h, read_consumes_line pre' post h', hb]

/-- Back-to-back frames are each returned in order; trailing events stay in the stream. -/
theorem reads_back_to_back (pre1 pre2 post : List REvent) (h1 : NoLF pre1) (h2 : NoLF pre2) :
    let r1 := frameRead (pre1 ++ .byte 10 :: (pre2 ++ .byte 10 :: post))
    let r2 := frameRead r1.2
    r1.1 = resultOf (dec (bytesOf pre1 ++ [10])) ∧ r2.1 = resultOf (dec (bytesOf pre2 ++ [10])) ∧
      r2.2 = post := by
  simp only [read_consumes_line pre1 _ h1, read_consumes_line pre2 _ h2, and_self]

theorem readUntilLF_error (pre post : List REvent) (acc : List UInt8) (h : NoLF pre) :
    readUntilLF (pre ++ .error :: post) acc = (none, post) := by
  induction pre generalizing acc with
  | nil => simp [readUntilLF]
  | cons e pre ih =>
    have hpre : NoLF pre := fun x hx => h x (by simp [hx])
    rcases h e (by simp) with rfl | ⟨b, rfl, hb⟩
    · simp only [List.cons_append, readUntilLF]; exact ih acc hpre
    · simp only [List.cons_append, readUntilLF, hb, ↓reduceIte]; exact ih _ hpre

/-- A hard I/O error before the line feed surfaces as an I/O error. -/
theorem read_error_surfaces (pre post : List REvent) (h : NoLF pre) :
    frameRead (pre ++ .error :: post) = (.ioErr, post) := by
  unfold frameRead
  rw [readUntilLF_error pre post [] h]

theorem readUntilLF_eof (pre : List REvent) (acc : List UInt8) (h : NoLF pre) :
    readUntilLF pre acc = (some (acc ++ bytesOf pre), []) := by
  induction pre generalizing acc with
  | nil => simp [readUntilLF, bytesOf]
  | cons e pre ih =>
    have hpre : NoLF pre := fun x hx => h x (by simp [hx])
    rcases h e (by simp) with rfl | ⟨b, rfl, hb⟩
    · simp only [readUntilLF, bytesOf]; exact ih acc hpre
    · simp only [readUntilLF, hb, ↓reduceIte, bytesOf]
      rw [ih _ hpre]; simp

/-- End of stream before a line feed: what was read is decoded as it stands (and rejected, since a
    valid frame line read this way would lack nothing but the optional terminator). -/
theorem read_eof (pre : List REvent) (h : NoLF pre) :
    frameRead pre = (resultOf (dec (bytesOf pre)), []) := by
  unfold frameRead
  rw [readUntilLF_eof pre [] h]
  simp only [List.nil_append]
  cases dec (bytesOf pre) <;> rfl

/-! ### write -/

/-- A sink that only ever accepts some bytes or reports an interrupted write. -/
def Patient (evs : List WEvent) : Prop :=
  ∀ e ∈ evs, e = .interrupted ∨ ∃ n, e = .accept n ∧ 0 < n

/-- Writing delivers exactly the buffer, however few bytes the sink accepts per call and however
    often it is interrupted. -/
theorem writeAll_delivers (evs : List WEvent) (buf : List UInt8) (h : Patient evs) :
    (writeAll evs buf).1 = true ∧ (writeAll evs buf).2.1 = buf := by
  induction evs generalizing buf with
  | nil => simp [writeAll]
  | cons e evs ih =>
    have hevs : Patient evs := fun x hx => h x (by simp [hx])
    unfold writeAll
    by_cases hb : buf.isEmpty
    · simp [List.isEmpty_iff.mp hb]
    · simp only [hb, Bool.false_eq_true, ↓reduceIte]
      rcases h e (by simp) with rfl | ⟨n, rfl, hn⟩
      · exact ih buf hevs
      · have : n ≠ 0 := by omega
        simp only [this, ↓reduceIte]
        obtain ⟨i1, i2⟩ := ih (buf.drop n) hevs
        exact ⟨i1, by rw [i2, List.take_append_drop]⟩

theorem write_delivers (f : Frame) (evs : List WEvent) (h : Patient evs) :
    (frameWrite f evs).1 = true ∧ (frameWrite f evs).2.1 = encNL f :=
  writeAll_delivers evs (encNL f) h

/-- Whatever the sink does, what has been delivered is a prefix of the encoding — nothing else is
    ever written — and success is reported only when all of it was delivered. -/
theorem writeAll_prefix (evs : List WEvent) (buf : List UInt8) :
    (writeAll evs buf).2.1 <+: buf ∧ ((writeAll evs buf).1 = true → (writeAll evs buf).2.1 = buf) := by
  induction evs generalizing buf with
  | nil => simp [writeAll]
  | cons e evs ih =>
    unfold writeAll
    by_cases hb : buf.isEmpty
    · simp [List.isEmpty_iff.mp hb]
    · simp only [hb, Bool.false_eq_true, ↓reduceIte]
      cases e with
      | interrupted => exact ih buf
      | error => simp
      | accept n =>
        by_cases hn : n = 0
        · simp [hn]
        · simp only [hn, ↓reduceIte]
          obtain ⟨i1, i2⟩ := ih (buf.drop n)
          refine ⟨?_, ?_⟩
          · obtain ⟨t, ht⟩ := i1
            refine ⟨t, ?_⟩
            rw [List.append_assoc, ht, List.take_append_drop]
          · intro hok
            rw [i2 hok, List.take_append_drop]

theorem write_only_the_encoding (f : Frame) (evs : List WEvent) :
    (frameWrite f evs).2.1 <+: encNL f ∧ ((frameWrite f evs).1 = true → (frameWrite f evs).2.1 = encNL f) :=
  writeAll_prefix evs (encNL f)

/-- A hard error (or a zero-length write) while bytes remain surfaces as a failure. -/
theorem writeAll_error_surfaces (pre post : List WEvent) (buf : List UInt8) (bad : WEvent)
    (hbad : bad = .error ∨ bad = .accept 0)
    (hpre : ∀ e ∈ pre, e = .interrupted) (hbuf : buf ≠ []) :
    (writeAll (pre ++ bad :: post) buf).1 = false := by
  induction pre with
  | nil =>
    have : buf.isEmpty = false := by simpa using hbuf
    rcases hbad with rfl | rfl <;> simp [writeAll, this]
  | cons e pre ih =>
    have he := hpre e (by simp)
    subst he
    have : buf.isEmpty = false := by simpa using hbuf
    simp only [List.cons_append, writeAll, this, Bool.false_eq_true, ↓reduceIte]
    exact ih (fun x hx => hpre x (by simp [hx]))

-- Non-vacuity: the doc example arrives in two fragments with an interrupt in between, followed
-- by the start of another frame.
example : frameRead ([.byte 58, .byte 48, .byte 50, .byte 48, .byte 48, .byte 48, .byte 50, .interrupted,
    .byte 48, .byte 49, .byte 48, .byte 51, .byte 49, .byte 70, .byte 68, .byte 57, .byte 13, .byte 10,
    .byte 58, .byte 48]) = (.ok ⟨2, 1, [3, 31]⟩, [.byte 58, .byte 48]) := by decide +kernel
example : Patient [.accept 3, .interrupted, .accept 1, .accept 100] := by
  intro e he; simp at he; rcases he with rfl | rfl | rfl | rfl <;> simp

end Flipdot.C15
