/-
C09 — Controller data transfers are complete, ordered, correctly offset and counted.
-/
import Flipdot.Lemmas.Chunks
import Flipdot.Lemmas.CtrlSpec
namespace Flipdot.C09
open Flipdot

/-! ### Chunking of one item -/

/-- The chunks of an item concatenate to exactly the item's bytes. -/
theorem chunks_complete (item : List UInt8) : (chunks16 item).flatten = item := chunks16_flatten item

/-- Every chunk has at most 16 bytes (and at least one). -/
theorem chunk_sizes (item : List UInt8) : ∀ c ∈ chunks16 item, 1 ≤ c.length ∧ c.length ≤ 16 :=
  chunks16_len item

/-- The `i`-th message of an item carries bytes `16 i ..` of the item at offset `16 i`. -/
theorem item_message (item : List UInt8) (i : Nat) (h : i * 16 < item.length) :
    (itemMsgs item)[i]? = some (.sendData (UInt16.ofNat (i * 16)) ((item.drop (i * 16)).take 16)) := by
  rw [itemMsgs_getElem?]; simp [h]

/-- ... and there are exactly `ceil(len / 16)` of them, nothing after. -/
theorem item_message_count (item : List UInt8) : (itemMsgs item).length = (item.length + 15) / 16 :=
  itemMsgs_length item

/-- Offsets are exactly `0, 16, 32, ...` up to the 16-bit offset limit. -/
theorem offset_exact (i : Nat) (h : i * 16 < 65536) : (UInt16.ofNat (i * 16)).toNat = i * 16 := by
  simp [UInt16.toNat_ofNat']; omega

/-- Several items are sent one after the other, each chunked on its own (offsets restart at 0). -/
theorem items_in_order (items : List (List UInt8)) : allChunkMsgs items = items.flatMap itemMsgs :=
  allChunkMsgs_eq_flatMap items

/-- The configuration transfer sends exactly the 16-byte block of the controller's sign type, as a
    single chunk at offset 0. -/
theorem config_is_type_block (t : SignType) : cfgMsgs t = [.sendData 0 t.toBytes] := by
  cases t <;> rfl

/-! ### Shape of every transfer conversation, for every reply script -/

/-- The announced count is the number of chunks sent since the request (as long as it fits the
    16-bit field). -/
theorem count_exact (msgs : List Msg) (h : msgs.length < 65536) :
    (UInt16.ofNat msgs.length).toNat = msgs.length := by
  simp [UInt16.toNat_ofNat']; omega

/-- Every transfer conversation consists of attempts, each a (complete, or — only for the last —
    possibly cut short) run of: the receive request, every chunk of every item in order, the chunk
    count, the state query. -/
theorem transfer_shape (a : UInt16) (items : List (List UInt8)) (op : Op) (succ failS : State)
    (script : List Reply) (hlen : (allChunkMsgs items).length < 65536) :
    AttemptShape (attemptMsgs a (allChunkMsgs items) op) 2
      (msgsOf ((transfer a (allChunkMsgs items) op succ failS 2).run script).1) :=
  ((transfer_refines a _ op succ failS 2 hlen).run script).attempt_shape

/-- Data and count are sent only after the sign itself acknowledged the receive request: in any
    transfer conversation with more than one exchange, the first one is the request answered by the
    sign's own acknowledgement. -/
theorem ack_before_data (a : UInt16) (msgs : List Msg) (op : Op) (succ failS : State) (n : Nat)
    (c : List Ex) (o : Outcome Unit) (h : TransferSpec a msgs op succ failS n c o)
    (hl : 2 ≤ c.length) : c[0]? = some (ans (.requestOp a op) (some (.ackOp a op))) := by
  have first : ∀ tail : List Ex,
      (okConv (attemptReqs a msgs op) ++ tail)[0]? = some (ans (.requestOp a op) (some (.ackOp a op))) := by
    intro tail; simp [okConv, attemptReqs]
  cases h with
  | stopped n c o hm =>
    obtain ⟨pre, m, w, post, c', e, hs, hc⟩ := hm
    obtain ⟨x, hx, _⟩ := hs.shape
    subst hc hx
    cases pre with
    | nil => simp [okConv] at hl
    | cons p pre =>
      simp only [attemptReqs, List.cons_append, List.cons.injEq] at e
      simp [okConv, ← e.1]
  | queryStarved n => exact first _
  | queryBus n => exact first _
  | received n => exact first _
  | retry n c o _ => exact first _
  | unexpected n r _ _ => exact first _

/-- `configure`: whenever the configuration phase is reached, what follows is a transfer of the
    type block in the shape above; otherwise no data message was sent at all. -/
theorem configure_shape (a : UInt16) (t : SignType) (script : List Reply) :
    (∃ c1 c2, ((configure a t).run script).1 = c1 ++ c2 ∧ EnsureOK a c1 ∧
        AttemptShape (attemptMsgs a [.sendData 0 t.toBytes] .receiveConfig) 2 (msgsOf c2)) ∨
    (EnsureStop a ((configure a t).run script).1 ((configure a t).run script).2) := by
  have hs := (configure_refines a t).run script
  generalize ((configure a t).run script).1 = c at hs ⊢
  generalize ((configure a t).run script).2 = o at hs ⊢
  cases hs with
  | ensureStop c o he => exact .inr he
  | transfer c1 c2 o h1 ht =>
    refine .inl ⟨c1, c2, rfl, h1, ?_⟩
    rw [← config_is_type_block]
    exact ht.attempt_shape

/-! ### The excluded region: 65 536 chunks or more in one transfer -/

/-- If every chunk is met with silence, the 65 536th one overflows the controller's 16-bit chunk
    counter: the model's explicit panic node (a debug-profile panic in the real code; the harness
    confirms `PANIC` on both sides in the thorough tier). -/
theorem sendChunks_overflow {α : Type} (ms : List Msg) (n : Nat) (k : Nat → Prog α)
    (hn : n < 65536) (hlen : 65536 ≤ n + ms.length) (rest : List Reply) :
    ((sendChunks ms n k).run (List.replicate (65536 - n) (.ok none) ++ rest)).2 = .panic .overflow := by
  induction ms generalizing n with
  | nil => simp at hlen; omega
  | cons m ms ih =>
    have e : 65536 - n = (65536 - (n + 1)) + 1 := by omega
    rw [e, List.replicate_succ, List.cons_append]
    simp only [sendChunks, Prog.run_send_ok, ↓reduceIte]
    by_cases h1 : n + 1 ≥ 65536
    · simp [h1]
    · simp only [h1, ↓reduceIte]
      exact ih (n + 1) (by omega) (by simp at hlen ⊢; omega)

theorem transfer_overflow_panics (a : UInt16) (msgs : List Msg) (op : Op) (succ failS : State)
    (n : Nat) (h : 65536 ≤ msgs.length) (rest : List Reply) :
    ((transfer a msgs op succ failS n).run
      (.ok (some (.ackOp a op)) :: (List.replicate 65536 (.ok none) ++ rest))).2 = .panic .overflow := by
  cases n <;>
    (unfold transfer expect
     simp only [Prog.run_send_ok, ↓reduceIte]
     exact sendChunks_overflow msgs 0 _ (by omega) (by omega) rest)

-- Non-vacuity: a 96-byte page is 6 chunks at offsets 0..80; a 20-byte item ends with a short chunk.
example : (itemMsgs (List.replicate 96 7)).length = 6 := by decide
example : (itemMsgs (List.replicate 20 7))[1]? = some (.sendData 16 [7, 7, 7, 7]) := by decide
example : (allChunkMsgs [List.replicate 16 1, List.replicate 16 2]).length < 65536 := by decide

end Flipdot.C09
