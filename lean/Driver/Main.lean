/-
Line-protocol driver around the executable model (DESIGN.md Appendix A).
One request per line on stdin, one response line per request on stdout.
-/
import Flipdot.Model.Frame
import Flipdot.Model.Message
import Flipdot.Model.SignType
import Flipdot.Model.Page
import Flipdot.Model.Display
import Flipdot.Model.VSign
import Flipdot.Model.Controller
import Flipdot.Model.Compose
import Flipdot.Model.Io
import Flipdot.Model.Serial
import Flipdot.Model.Pipe
open Flipdot

namespace Drv

def hexChar (n : Nat) : Char := if n < 10 then Char.ofNat (48 + n) else Char.ofNat (55 + n)

def hexOfBytes (bs : List UInt8) : String :=
  String.ofList (bs.flatMap fun b => [hexChar (b.toNat / 16), hexChar (b.toNat % 16)])

def toHex (bs : List UInt8) : String := if bs.isEmpty then "-" else hexOfBytes bs

def hex2 (b : UInt8) : String := hexOfBytes [b]
def hex4 (a : UInt16) : String := hexOfBytes [(a >>> 8).toUInt8, a.toUInt8]

def hv (c : Char) : Option Nat :=
  if '0' ≤ c ∧ c ≤ '9' then some (c.toNat - 48)
  else if 'A' ≤ c ∧ c ≤ 'F' then some (c.toNat - 55)
  else if 'a' ≤ c ∧ c ≤ 'f' then some (c.toNat - 87)
  else none

def parseHexL : List Char → Option (List UInt8)
  | [] => some []
  | [_] => none
  | a :: b :: r => do
    let h ← hv a
    let l ← hv b
    let t ← parseHexL r
    pure (UInt8.ofNat (h * 16 + l) :: t)

def parseHex (s : String) : Option (List UInt8) :=
  if s == "-" then some [] else parseHexL s.toList

def parseU16 (s : String) : Option UInt16 := do
  let bs ← parseHexL s.toList
  match bs with
  | [h, l] => pure (h.toUInt16 * 256 + l.toUInt16)
  | _ => none

def parseU8 (s : String) : Option UInt8 := do
  let bs ← parseHexL s.toList
  match bs with
  | [b] => pure b
  | _ => none

def stateIdx (s : State) : Nat := (State.all.findIdx? (· == s)).getD 99
def opIdx (o : Op) : Nat := (Op.all.findIdx? (· == o)).getD 99
def typeIdx (t : SignType) : Nat := (SignType.all.findIdx? (· == t)).getD 99

def parseState (s : String) : Option State := do State.all[← s.toNat?]?
def parseOp (s : String) : Option Op := do Op.all[← s.toNat?]?
def parseType (s : String) : Option SignType := do SignType.all[← s.toNat?]?

def showMsg : Msg → String
  | .sendData off d => s!"SD,{hex4 off},{toHex d}"
  | .chunksSent n => s!"CS,{hex4 n}"
  | .hello a => s!"HE,{hex4 a}"
  | .queryState a => s!"QS,{hex4 a}"
  | .reportState a s => s!"RS,{hex4 a},{stateIdx s}"
  | .requestOp a o => s!"RO,{hex4 a},{opIdx o}"
  | .ackOp a o => s!"AK,{hex4 a},{opIdx o}"
  | .pixelsComplete a => s!"PC,{hex4 a}"
  | .goodbye a => s!"GB,{hex4 a}"
  | .unknown f => s!"UN,{hex4 f.addr},{hex2 f.ty},{toHex f.data}"

def parseMsg (s : String) : Option Msg :=
  match s.splitOn "," with
  | ["SD", off, d] => do pure (.sendData (← parseU16 off) (← parseHex d))
  | ["CS", n] => do pure (.chunksSent (← parseU16 n))
  | ["HE", a] => do pure (.hello (← parseU16 a))
  | ["QS", a] => do pure (.queryState (← parseU16 a))
  | ["RS", a, st] => do pure (.reportState (← parseU16 a) (← parseState st))
  | ["RO", a, o] => do pure (.requestOp (← parseU16 a) (← parseOp o))
  | ["AK", a, o] => do pure (.ackOp (← parseU16 a) (← parseOp o))
  | ["PC", a] => do pure (.pixelsComplete (← parseU16 a))
  | ["GB", a] => do pure (.goodbye (← parseU16 a))
  | ["UN", a, ty, d] => do pure (.unknown ⟨← parseU16 a, ← parseU8 ty, ← parseHex d⟩)
  | _ => none

def showFrame (f : Frame) : String := s!"{hex4 f.addr} {hex2 f.ty} {toHex f.data}"

def showFrameErr : FrameErr → String
  | .tooLong m a => s!"err toolong {m} {a}"
  | .invalid => "err invalid"
  | .mismatch e a => s!"err mismatch {e} {a}"
  | .badsum e a => s!"err badsum {hex2 e} {hex2 a}"

/-- FNV-1a, 64 bit. -/
def fnvByte (h : UInt64) (b : UInt8) : UInt64 := (h ^^^ b.toUInt64) * 1099511628211
def fnvInit : UInt64 := 14695981039346656037
def fnvNat (h : UInt64) (n : Nat) : UInt64 :=
  -- 8 little-endian bytes
  (List.range 8).foldl (fun h i => fnvByte h (UInt8.ofNat ((n >>> (8 * i)) % 256))) h
def fnvStr (h : UInt64) (s : String) : UInt64 := s.toUTF8.foldl fnvByte h

def hashPages (ps : List Page) : UInt64 :=
  ps.foldl (fun h p => p.bytes.foldl fnvByte (fnvNat (fnvNat (fnvNat h p.w) p.h) p.bytes.length)) fnvInit

/-- Deterministic filler shared with the harness: byte `i` of `gen seed len`. -/
def genByte (seed i : Nat) : UInt8 := UInt8.ofNat ((seed * 31 + i * 7 + (i / 256) * 3 + (i / 16) * 5) % 256)
def genBytes (seed len : Nat) : List UInt8 := (List.range len).map (genByte seed)

def parseItem (s : String) : Option (List UInt8) :=
  match s.splitOn ":" with
  | ["h", hx] => parseHex hx
  | ["g", len, seed] => do pure (genBytes (← seed.toNat?) (← len.toNat?))
  | _ => none

def parseItems (s : String) : Option (List (List UInt8)) :=
  if s == "-" then some [] else (s.splitOn ";").mapM parseItem

def parseStyle (s : String) : Option FlipStyle :=
  if s == "A" then some .automatic else if s == "M" then some .manual else none

def showSign (s : VSign) : String :=
  let t := match s.signType with | some t => toString (typeIdx t) | none => "-"
  s!"{stateIdx s.state}/{t}/{s.pages.length}/{hashPages s.pages}"

def showReply : Option Msg → String
  | none => "none"
  | some m => showMsg m

def parseSigns (s : String) : Option (List VSign) :=
  (s.splitOn ";").mapM fun t =>
    match t.splitOn "," with
    | [st, a] => do pure (VSign.new (← parseU16 a) (← parseStyle st))
    | _ => none

def showPanic : Panic → String
  | _ => "PANIC"

/-- vsign / vbus walk. -/
def walk (bus : List VSign) (msgs : List Msg) : String := Id.run do
  let mut b := bus
  let mut out : Array String := #[]
  for m in msgs do
    match busStep b m with
    | .error _ => return String.intercalate " " (out.push "PANIC").toList
    | .ok (b', r) =>
      b := b'
      out := out.push (showReply r ++ "|" ++ String.intercalate ";" (b.map showSign))
  return String.intercalate " " out.toList

def showTrace (tr : List Msg) : String :=
  let toks := tr.map showMsg
  if toks.length ≤ 200 then String.intercalate " " toks
  else s!"#{toks.length}:{toks.foldl (fun h t => fnvStr (fnvByte h 32) t) fnvInit}"

def parseReply (s0 : String) : Option Reply :=
  -- a leading `~` (the bus takes over a second to answer) is not an event of the model: time is not a reply
  let s := if s0.startsWith "~" then (s0.drop 1).toString else s0
  if s == "none" then some (.ok none)
  else if s == "bus" then some .busError
  else (parseMsg s).map (fun m => .ok (some m))

def showOutcome {α : Type} (f : α → String) : Outcome α → String
  | .ok a => f a
  | .proto => "proto"
  | .bus => "bus"
  | .starved => "starved"
  | .panic _ => "PANIC"
  | .outOfFuel => "FUEL"

def showStyle : FlipStyle → String
  | .automatic => "ok:auto"
  | .manual => "ok:manual"

inductive AnyProg where
  | unit (p : Prog Unit)
  | style (p : Prog FlipStyle)

/-- Controller operation named by `op`; `fuel` only matters to show / next. -/
def ctrlProg (op : String) (t : SignType) (a : UInt16) (items : List (List UInt8)) (fuel : Nat) :
    Option AnyProg :=
  if op == "cfg" then some (.unit (configure a t))
  else if op == "cfn" then some (.unit (configureIfNeeded a t))
  else if op == "snd" then some (.style (sendPages a items))
  else if op == "shw" then some (.unit (showLoadedPage a fuel))
  else if op == "nxt" then some (.unit (loadNextPage a fuel))
  else if op == "off" then some (.unit (shutDown a))
  else none

/-- A reply script in which `none` stands for "the bus echoes the message it was just sent" (a half-duplex line
    that loops the transmitter back): each mark is replaced by the message the program sends at that point. -/
def resolveEcho {α : Type} : Prog α → List (Option Reply) → List Reply
  | .send m k, none :: rest => .ok (some m) :: resolveEcho (k (some m)) rest
  | .send _ k, some (.ok r) :: rest => .ok r :: resolveEcho (k r) rest
  | _, rest => rest.map (·.getD .busError)      -- the run ends at or before this point

def parseReplyE (s : String) : Option (Option Reply) :=
  if s == "echo" then some none else (parseReply s).map some

def runCtrl (p : AnyProg) (script : List Reply) : String :=
  match p with
  | .unit p => let (tr, o) := p.run script; showTrace (tr.map Prod.fst) ++ " => " ++ showOutcome (fun _ => "ok") o
  | .style p => let (tr, o) := p.run script; showTrace (tr.map Prod.fst) ++ " => " ++ showOutcome showStyle o

/-- `runCtrl` for one of several operations on one controller object: also returns how many replies were used.
    `panicAt`: positions of the script where the bus unwinds instead of returning an error; to the controller
    (which keeps nothing between operations) that is an operation that ended there, reported as PANIC. -/
def runCtrlN (p : AnyProg) (script : List Reply) (panicAt : List Nat) : String × Nat :=
  let (n, tr, o) : Nat × String × String := match p with
    | .unit p => let (tr, o) := p.run script; (tr.length, showTrace (tr.map Prod.fst), showOutcome (fun _ => "ok") o)
    | .style p => let (tr, o) := p.run script; (tr.length, showTrace (tr.map Prod.fst), showOutcome showStyle o)
  let o := if o == "bus" && panicAt.contains (n - 1) then "PANIC" else o
  (tr ++ " => " ++ o, n)

def runOnBus (p : AnyProg) (bus : List VSign) : String × List VSign :=
  match p with
  | .unit p => let (o, b) := p.runOn bus; (showOutcome (fun _ => "ok") o, b)
  | .style p => let (o, b) := p.runOn bus; (showOutcome showStyle o, b)

def pageOps (p : Page) (ops : List String) : String := Id.run do
  let mut p := p
  let mut out : Array String := #[]
  for op in ops do
    match op.splitOn "," with
    | ["g", x, y] =>
      match x.toNat?, y.toNat? with
      | some x, some y =>
        match p.get x y with
        | .ok b => out := out.push (if b then "1" else "0")
        | .error _ => return String.intercalate " " (out.push "PANIC").toList
      | _, _ => return "bad-op"
    | ["s", x, y, v] =>
      match x.toNat?, y.toNat? with
      | some x, some y =>
        match p.set x y (v == "1") with
        | .ok p' => p := p'; out := out.push "."
        | .error _ => return String.intercalate " " (out.push "PANIC").toList
      | _, _ => return "bad-op"
    | ["a", v] =>
      match p.setAll (v == "1") with
      | .ok p' => p := p'; out := out.push "."
      | .error _ => return String.intercalate " " (out.push "PANIC").toList
    | ["i"] =>
      match p.id with
      | .ok b => out := out.push (hex2 b)
      | .error _ => return String.intercalate " " (out.push "PANIC").toList
    | ["b"] => out := out.push (toHex p.bytes)
    | ["d"] =>
      match p.render with
      | .ok bs => out := out.push (String.ofList (bs.map fun b =>
          if b == 32 then '.' else if b == 10 then '/' else Char.ofNat b.toNat))
      | .error _ => return String.intercalate " " (out.push "PANIC").toList
    | _ => return "bad-op"
  return String.intercalate " " (out.push s!"{p.w} {p.h} {toHex p.bytes}").toList


def parseREvents (toks : List String) : Option (List REvent) := do
  let parts ← toks.mapM fun t =>
    if t == "i" then some [REvent.interrupted]
    else if t == "e" then some [REvent.error]
    else if t == "t" then some [REvent.error]   -- a read timeout is an I/O error like any other
    else if t == "z" then some [REvent.eof]
    else if t == "n" then some [REvent.interrupted]   -- the reader used the codec itself, then "interrupted"
    else if t == "x" then some [REvent.error]         -- an I/O error is an I/O error, whatever its payload
    else if t.startsWith "s:" then some []             -- the reader takes its time: not an event of the model
    else match t.splitOn ":" with
      | ["d", hx] => (parseHex hx).map (·.map REvent.byte)
      | ["r", n, b] => do
          let n ← n.toNat?
          let bs ← parseHex b
          pure (List.replicate n (REvent.byte (bs.headD 0)))
      | _ => none
  pure parts.flatten

def parseWEvents (toks : List String) : Option (List WEvent) :=
  -- `F` (the port's flush() fails from now on) is not an event of the model: the library never flushes
  (toks.filter (· != "F")).mapM fun t =>
    if t == "i" then some WEvent.interrupted
    else if t == "e" || t == "x" then some WEvent.error
    else match t.splitOn ":" with
      | ["a", n] => n.toNat?.map WEvent.accept
      | _ => none

def showIo : IoResult Frame → String
  | .ok f => "ok " ++ showFrame f
  | .frameErr e => showFrameErr e
  | .ioErr => "err io"

def ioReads (n : Nat) (evs : List REvent) : String := Id.run do
  let mut evs := evs
  let mut out : Array String := #[]
  for _ in [0:n] do
    let (r, rest) := frameRead evs
    evs := rest
    out := out.push (showIo r)
  return String.intercalate " ; " out.toList ++ " | rest=" ++ toHex (remainingBytes evs)

def splitBar (toks : List String) : List (List String) :=
  toks.foldr (fun t acc => if t == "|" then [] :: acc else match acc with
    | [] => [[t]]
    | g :: gs => (t :: g) :: gs) [[]]

def showBusResult : BusResult → String
  | .ok none => "ok none"
  | .ok (some m) => "ok " ++ showMsg m
  | .err => "err"

def showPortEvents (timed : Bool) (evs : List PortEvent) : String :=
  String.intercalate " " (evs.filterMap fun e => match e with
    | .wrote bs ok => some s!"W:{toHex bs}:{if ok then 1 else 0}"
    | .sleep ms => if timed then some s!"S:{ms}" else none
    | .readLine => some "R")

def serialCase (timed : Bool) (m : Msg) (rd : List REvent) (wr : List WEvent) : String :=
  let (evs, res, p) := serialStep m ⟨rd, wr⟩
  showPortEvents timed evs ++ " => " ++ showBusResult res ++ " rest=" ++ toHex (remainingBytes p.rd)

/-- Several exchanges on one bus object: the port (what is left to read, the write script) is threaded
    through `serialStep`; nothing else survives from one exchange to the next.  Timed: `G:30` after a
    completed data-chunk write when another message follows (the pause is owed before the NEXT write),
    `S:100` after the read of an in-progress report. -/
def serialMultiCase (timed : Bool) (ms : List Msg) (rd : List REvent) (wr : List WEvent) : String := Id.run do
  let mut port : Port := ⟨rd, wr⟩
  let mut parts : Array String := #[]
  let mut rest := ms
  for m in ms do
    rest := rest.drop 1
    let (evs, res, p) := serialStep m port
    port := p
    let hasNext := !rest.isEmpty
    let toks := evs.filterMap fun e => match e with
      | .wrote bs ok => some s!"W:{toHex bs}:{if ok then 1 else 0}"
      | .readLine => some "R"
      | .sleep ms => if !timed then none else if ms == 30 then (if hasNext then some "G:30" else none) else some s!"S:{ms}"
    parts := parts.push (String.intercalate " " toks ++ " => " ++ showBusResult res)
  return String.intercalate " ; " parts.toList ++ " rest=" ++ toHex (remainingBytes port.rd)

def showOdk : OdkResult → String
  | .ok => "ok"
  | .comm => "comm"
  | .bus => "bus"

def odkCase (bus : List VSign) (prior : List Msg) (rd : List REvent) (wr : List WEvent) (n : Nat) : String := Id.run do
  let mut b := bus
  for m in prior do
    match busStep b m with
    | .error _ => return "PANIC"
    | .ok (b', _) => b := b'
  let mut port : Port := ⟨rd, wr⟩
  let mut out : Array String := #[]
  for _ in [0:n] do
    match odkStep b port with
    | .error _ => return "PANIC"
    | .ok (res, written, b', p') =>
      b := b'
      port := p'
      out := out.push s!"{showOdk res} w={toHex written}"
  return String.intercalate " ; " out.toList ++ " | " ++ String.intercalate ";" (b.map showSign) ++
    " | rest=" ++ toHex (remainingBytes port.rd)

def bauds : List Baud := [.b110, .b300, .b600, .b1200, .b2400, .b4800, .b9600, .b19200, .b38400, .b57600, .b115200]
def charSizes : List CharSize := [.bits5, .bits6, .bits7, .bits8]
def parities : List Parity := [.none, .odd, .even]
def stops : List StopBits := [.stop1, .stop2]
def flows : List FlowControl := [.none, .software, .hardware]

def parseBaud (s : String) : Option Baud :=
  if s.startsWith "o" then (s.drop 1).toString.toNat?.map Baud.other else do bauds[← s.toNat?]?

def showBaud (b : Baud) : String :=
  match b with
  | .other n => s!"o{n}"
  | b => toString ((bauds.findIdx? (· == b)).getD 99)

def showSettings (s : PortSettings) : String :=
  s!"{showBaud s.baud},{(charSizes.findIdx? (· == s.charSize)).getD 99},{(parities.findIdx? (· == s.parity)).getD 99},{(stops.findIdx? (· == s.stopBits)).getD 99},{(flows.findIdx? (· == s.flow)).getD 99}"

def parseSettings (s0 : String) : Option PortSettings :=
  -- a leading `n`: the device's settings object cannot name its current state (its getters return None); what the
  -- port ends up with does not depend on that — every field is written unconditionally
  let s := if s0.startsWith "n" then (s0.drop 1).toString else s0
  match s.splitOn "," with
  | [b, c, p, st, f] => do
    pure ⟨← parseBaud b, ← charSizes[← c.toNat?]?, ← parities[← p.toNat?]?, ← stops[← st.toNat?]?, ← flows[← f.toNat?]?⟩
  | _ => none

def parseFail (s0 : String) : Option FailAt :=
  -- an optional `:k` suffix names the kind of error the refusing call returns; the outcome does not depend on it
  let s := (s0.splitOn ":").headD s0
  if s == "never" then some .never else if s == "read" then some .readSettings
  else if s == "baud" then some .setBaud else if s == "write" then some .writeSettings
  else if s == "timeout" then some .setTimeout else none

def portCase (kind : String) (prior : PortSettings) (fail : FailAt) : Option String := do
  let d : Device := ⟨prior, none⟩
  let (ok, d') ←
    if kind == "serial" then some (serialTryNew d fail)
    else if kind == "odk" then some (odkTryNew d fail)
    else match kind.splitOn ":" with
      | ["cfg", ms] => do pure (configurePort d (← ms.toNat?) fail)
      | ["cfgn", ns] => do pure (configurePort d (← ns.toNat?) fail)   -- the same pass-through, counted in nanoseconds
      | _ => none
  let t := match d'.timeout with
    | some ms => if kind.startsWith "cfgn:" then toString ms ++ "ns" else toString ms
    | none => "-"
  pure s!"{if ok then "ok" else "err"} {showSettings d'.settings} {t}"

def e2eSerial (signs : String) (rest : List String) : Option String := do
  let bus ← parseSigns signs
  let prior := rest.takeWhile (· != "|")
  let ops := (rest.dropWhile (· != "|")).drop 1
  let msgs ← prior.mapM parseMsg
  let mut b := bus
  for m in msgs do
    match busStep b m with
    | .error _ => return "PANIC"
    | .ok (b', _) => b := b'
  let mut far : Far := ⟨b, []⟩
  let mut out : Array String := #[]
  for o in ops do
    match o.splitOn "," with
    | [op, a, t, items] =>
      let p ← ctrlProg op (← parseType t) (← parseU16 a) (← parseItems items) 8
      let (r, f') := match p with
        | .unit p => let (o, f) := p.runVia far; (showOutcome (fun _ => "ok") o, f)
        | .style p => let (o, f) := p.runVia far; (showOutcome showStyle o, f)
      far := f'
      out := out.push r
    | _ => none
  pure (String.intercalate " " out.toList ++ " | " ++ String.intercalate ";" (far.bus.map showSign))

def orBad (o : Option String) : String := o.getD "bad-op"

def e2eDirect (signs : String) (rest : List String) : Option String := do
  let bus ← parseSigns signs
  -- rest = prior msgs ... "|" ops ...
  let prior := rest.takeWhile (· != "|")
  let ops := (rest.dropWhile (· != "|")).drop 1
  let msgs ← prior.mapM parseMsg
  let mut b := bus
  for m in msgs do
    match busStep b m with
    | .error _ => return "PANIC"
    | .ok (b', _) => b := b'
  let mut out : Array String := #[]
  for o in ops do
    match o.splitOn "," with
    | "raw" :: toks =>
      -- traffic that comes from none of the controllers: one bus step between two operations
      let m ← parseMsg (String.intercalate "," toks)
      match busStep b m with
      | .error _ => return "PANIC"
      | .ok (b', r) =>
        b := b'
        out := out.push ("raw:" ++ showReply r)
    | [op, a, t, items] =>
      let p ← ctrlProg op (← parseType t) (← parseU16 a) (← parseItems items) 8
      let (r, b') := runOnBus p b
      b := b'
      out := out.push r
    | _ => none
  pure (String.intercalate " " out.toList ++ " | " ++ String.intercalate ";" (b.map showSign))

def handle (line : String) : String :=
  match line.trimAscii.toString.splitOn " " with
  | ["data", n] => orBad do
      let n ← n.toNat?
      -- blocks too large to build as a list: the verdict by length (`Data.tryNew_verdict`)
      match (if n ≤ 4096 then (Data.tryNew (List.replicate n 0)).map (fun _ => ()) else Data.tryNewLen n) with
      | .ok _ => pure "ok"
      | .error e => pure (showFrameErr e)
  | ["enc", a, ty, d] => orBad do
      pure (hexOfBytes (enc ⟨← parseU16 a, ← parseU8 ty, ← parseHex d⟩))
  | ["encnl", a, ty, d] => orBad do
      pure (hexOfBytes (encNL ⟨← parseU16 a, ← parseU8 ty, ← parseHex d⟩))
  | ["fshow", a, ty, d] => orBad do
      pure (hexOfBytes (Frame.display ⟨← parseU16 a, ← parseU8 ty, ← parseHex d⟩))
  | ["dec", d] => orBad do
      match dec (← parseHex d) with
      | .ok f => pure ("ok " ++ showFrame f)
      | .error e => pure (showFrameErr e)
  | ["f2m", a, ty, d] => orBad do
      pure (showMsg (toMsg ⟨← parseU16 a, ← parseU8 ty, ← parseHex d⟩))
  | ["m2f", m] => orBad do pure (showFrame (toFrame (← parseMsg m)))
  | "page" :: "new" :: id :: w :: h :: ops => orBad do
      pure (pageOps (Page.new (← parseU8 id) (← w.toNat?) (← h.toNat?)) ops)
  | "page" :: "from" :: w :: h :: d :: ops => orBad do
      let w ← w.toNat?
      let h ← h.toNat?
      let d ← parseItem d
      match Page.fromBytes w h d with
      | .ok p => pure (pageOps p ops)
      | .error (.wrongLen w h e a) => pure s!"err wronglen {w} {h} {e} {a}"
  | ["type", "tobytes", t] => orBad do pure (toHex (← parseType t).toBytes)
  | ["type", "dims", t] => orBad do
      let (w, h) := (← parseType t).dims
      pure s!"{w} {h}"
  | ["type", "frombytes", d] => orBad do
      match SignType.fromBytes (← parseHex d) with
      | .error _ => pure "PANIC"
      | .ok (.ok t) => pure s!"ok {typeIdx t}"
      | .ok (.error (.wrongLen e a)) => pure s!"err wronglen {e} {a}"
      | .ok (.error .unknownConfig) => pure "err unknown"
  | ["pagefromlen", w, h, n] => orBad do
      -- a buffer too large to build as a list: the verdict of `Page::from_bytes` by length (`Page.fromBytes_verdict`)
      match Page.fromBytesLenErr (← w.toNat?) (← h.toNat?) (← n.toNat?) with
      | none => pure "ok"
      | some (.wrongLen w h e a) => pure s!"err wronglen {w} {h} {e} {a}"
  | ["typefromlen", n, _known] => orBad do
      -- a string too long to build as a list (`SignType.fromBytes_wrongLen`)
      match SignType.fromBytesLenErr (← n.toNat?) with
      | some (.wrongLen e a) => pure s!"err wronglen {e} {a}"
      | _ => pure "bad-op"
  | ["soak", "enc", count] => orBad do
      -- the codec is a function: encoding the same frame again and again changes nothing (521 characters each time)
      pure s!"ok {(← count.toNat?) * (enc ⟨0x0102, 0, (List.range 255).map UInt8.ofNat⟩).length}"
  | ["portctor", _which] => "fine"   -- the model's only constructors are the `try_new`s, which all run `configurePort`
  | ["datagrow", _way] => "fits"   -- the model's data block has no mutable access: it stays what `Data.tryNew` admitted
  | ["datafrom", n] => orBad do
      -- whatever conversions into a data block the library offers, none yields more than 255 bytes
      -- (`Data.tryNew` is the only constructor of the model); the implementation side probes which exist
      let _ ← n.toNat?
      pure "fits"
  | ["bigpageeq", w, h] => orBad do
      -- pages are equal iff width, height and bytes are (derived equality of the record): two all-zero pages of the
      -- same size are equal and hash alike; one set pixel makes them differ (C06.get_set_same)
      let _ ← w.toNat?
      let _ ← h.toNat?
      pure "eq=1 hash-eq=1 after-set-eq=0"
  | ["bigpage", w, h, x, y] => orBad do
      -- a page too large to build as a list: where `set_pixel` writes is `Page.indices`, which reads the
      -- dimensions only (the bytes of this page value are never looked at)
      let p : Page := ⟨← w.toNat?, ← h.toNat?, []⟩
      match p.indices (← x.toNat?) (← y.toNat?) with
      | .error _ => pure "PANIC"
      | .ok (i, bit) => pure s!"{i}:{toHex [bitMask bit]} g=1"
  | "vbus" :: signs :: msgs => orBad do
      -- `@i:MSG` tokens first: sign i is stepped on its own before the bus exists; `#rebuild`: a new bus object
      -- from the same signs — the model's bus is nothing but the list of its signs, so this is a no-op here
      let pre := msgs.takeWhile (·.startsWith "@")
      let rest := (msgs.dropWhile (·.startsWith "@")).filter (· != "#rebuild")
      let mut bus ← parseSigns signs
      for t in pre do
        match (t.drop 1).toString.splitOn ":" with
        | [i, m] =>
          let i ← i.toNat?
          let m ← parseMsg m
          match bus[i]? with
          | none => none
          | some sg =>
            match vstep sg m with
            | .error _ => return "PANIC"
            | .ok (sg', _) => bus := bus.set i sg'
        | _ => none
      pure (walk bus (← rest.mapM parseMsg))
  | "ctrl" :: op :: t :: a :: items :: "|" :: replies => orBad do
      let marks ← replies.mapM parseReplyE
      let p ← ctrlProg op (← parseType t) (← parseU16 a) (← parseItems items) (marks.length + 1)
      let script := match p with
        | .unit q => resolveEcho q marks
        | .style q => resolveEcho q marks
      pure (runCtrl p script)
  | "ctrl2" :: op1 :: op2 :: t :: a :: items :: "|" :: replies => orBad do
      -- two operations on ONE controller object, one script: the second starts where the first stopped
      let panicAt := (List.range replies.length).filter (fun i => replies[i]? == some "panic")
      let script ← (replies.map (fun r => if r == "panic" then "bus" else r)).mapM parseReply
      let ty ← parseType t
      let a ← parseU16 a
      let its ← parseItems items
      let p1 ← ctrlProg op1 ty a its (script.length + 1)
      let (s1, n1) := runCtrlN p1 script panicAt
      let rest := script.drop n1
      let p2 ← ctrlProg op2 ty a its (rest.length + 1)
      let (s2, _) := runCtrlN p2 rest (panicAt.filterMap (fun i => if i ≥ n1 then some (i - n1) else none))
      pure (s1 ++ " ;; " ++ s2)
  | "e2e" :: "direct" :: signs :: rest => orBad (e2eDirect signs rest)
  | "e2e" :: "serial" :: signs :: rest => orBad (e2eSerial signs rest)
  | "io" :: "reads" :: n :: evs => orBad do pure (ioReads (← n.toNat?) (← parseREvents evs))
  | "io" :: "write" :: a :: ty :: d :: "|" :: evs => orBad do
      let f : Frame := ⟨← parseU16 a, ← parseU8 ty, ← parseHex d⟩
      let (ok, delivered, _) := frameWrite f (← parseWEvents evs)
      pure s!"{if ok then "ok" else "err"} {toHex delivered}"
  | "serial" :: m :: "|" :: rest => orBad do
      match splitBar rest with
      | [rd, wr] => pure (serialCase false (← parseMsg m) (← parseREvents rd) (← parseWEvents wr))
      | _ => none
  | "serialt" :: m :: "|" :: rest => orBad do
      match splitBar rest with
      | [rd, wr] => pure (serialCase true (← parseMsg m) (← parseREvents rd) (← parseWEvents wr))
      | _ => none
  | "serialm" :: rest => orBad do
      match splitBar rest with
      | [ms, rd, wr] =>
        let r := serialMultiCase false (← ms.mapM parseMsg) (← parseREvents rd) (← parseWEvents wr)
        pure (if wr.contains "F" then r ++ " [flush-fails]" else r)
      | _ => none
  | "serialmtc" :: rest => orBad do
      -- the same exchanges while other bus objects come and go on another thread: bus objects share nothing
      match splitBar rest with
      | [ms, rd, wr] => pure (serialMultiCase true (← ms.mapM parseMsg) (← parseREvents rd) (← parseWEvents wr))
      | _ => none
  | "serialmtu" :: rest => orBad do
      -- the same exchanges made while the calling thread is unwinding from a panic: nothing changes
      match splitBar rest with
      | [ms, rd, wr] => pure (serialMultiCase true (← ms.mapM parseMsg) (← parseREvents rd) (← parseWEvents wr))
      | _ => none
  | "serialmte" :: _wms :: _rms :: rest => orBad do
      match splitBar rest with
      | [ms, rd, wr] => pure (serialMultiCase true (← ms.mapM parseMsg) (← parseREvents rd) (← parseWEvents wr))
      | _ => none
  | "serialmts" :: _wms :: _rms :: rest => orBad do
      match splitBar rest with
      | [ms, rd, wr] => pure (serialMultiCase true (← ms.mapM parseMsg) (← parseREvents rd) (← parseWEvents wr))
      | _ => none
  | "serialmt" :: rest => orBad do
      match splitBar rest with
      | [ms, rd, wr] =>
        let r := serialMultiCase true (← ms.mapM parseMsg) (← parseREvents rd) (← parseWEvents wr)
        pure (if wr.contains "F" then r ++ " [flush-fails]" else r)
      | _ => none
  | "serialts" :: _wms :: _rms :: m :: "|" :: rest => orBad do
      -- slow port: the latencies are inside the write / read calls; the model's event sequence
      -- (and therefore where the pauses are owed) does not depend on them
      match splitBar rest with
      | [rd, wr] => pure (serialCase true (← parseMsg m) (← parseREvents rd) (← parseWEvents wr))
      | _ => none
  | "odk" :: n :: signs :: rest => orBad do
      match splitBar rest with
      | [prior, rd, wr] =>
        pure (odkCase (← parseSigns signs) (← prior.mapM parseMsg) (← parseREvents rd) (← parseWEvents wr) (← n.toNat?))
      | _ => none
  | ["port", kind, prior, fail] => orBad do portCase kind (← parseSettings prior) (← parseFail fail)
  | _ => "bad-op"

partial def loop (h : IO.FS.Stream) (out : IO.FS.Stream) : IO Unit := do
  let line ← h.getLine
  if line.isEmpty then return ()
  out.putStrLn (handle line)
  loop h out

end Drv

def main : IO Unit := do
  let stdin ← IO.getStdin
  let stdout ← IO.getStdout
  Drv.loop stdin stdout
