#!/usr/bin/env python3
"""translate_core.py — statement-level translator for the pure byte / integer code of
libs/core/src/page.rs (every method of `impl Page`) and libs/core/src/frame.rs (the encoder:
`payload`, `checksum`, `to_bytes`, `to_bytes_with_newline`, and `Data::try_new`).

Each Rust function becomes a Lean function returning `Except Panic T` (T the translation of the Rust
return type; a `Result<T, E>` becomes `Except E' T`).  Integers: `u32` / `usize` are `Nat` (64-bit
`usize`: the index arithmetic of these files cannot overflow, DESIGN.md §8), `u8` is `UInt8`, `u16` is
`UInt16`; `as` casts become `.toNat` / `UInt8.ofNat` / `.toUInt8`.  `Vec<u8>` / `&[u8]` / `Cow<[u8]>` are
`List UInt8`; `push`, `extend_from_slice`, `resize`, `with_capacity` act on a symbolic local; `for x in
&v { .. }` becomes a fold (`foldlE`) over the locals the body assigns; indexing goes through `idxE`
(explicit out-of-bounds panic), `v[i] op= e` through `setE`, `v[a..b].fill(x)` through `fillRange`;
`panic!(..)` is `.error .oob`.  `assert_eq!` on `len()` / `capacity()` bookkeeping is dropped (noted).
"""
import os
import re

from translate import TranslateError, strip_comments, matching
from translate_ctrl import parse_methods, parse_block, tokenize, P, indent, squash, LOG_MACROS, check_log_macro

LEAN_TY = {"u8": "UInt8", "u16": "UInt16", "nat": "Nat", "u32": "Nat", "bool": "Bool", "bytes": "List UInt8", "page": "Page", "unit": "Unit"}


def lname(rust):
    parts = rust.split("_")
    return parts[0] + "".join(w.capitalize() for w in parts[1:])


class Env:
    def __init__(self, vals=None, consts=None):
        self.vals = dict(vals or {})      # rust name → (lean text, type)
        self.consts = dict(consts or {})  # rust const → (lean text, type)

    def copy(self):
        return Env(self.vals, self.consts)


class CT:
    """translator for one impl block; `selfty` says what `self` is and how its fields read"""

    def __init__(self, methods, selfty, fields, consts, statics, prefix):
        self.methods, self.selfty, self.fields = methods, selfty, fields
        self.consts, self.statics, self.prefix = consts, statics, prefix
        self.counter = 0
        self.dropped = []

    def fresh(self, stem):
        self.counter += 1
        return "%s%d" % (stem, self.counter)

    # ------------------------------------------------------------ expressions
    # returns (preludes, text, type); a prelude is (call text, [bound names])
    def expr(self, e, env, want=None):
        k = e[0]
        if k in ("paren", "ref", "deref"):
            return self.expr(e[1], env, want)
        if k == "num":
            if want == "u8":
                return [], "(0x%02X : UInt8)" % e[1], "u8"
            if want == "u16":
                return [], "(%d : UInt16)" % e[1], "u16"
            if want == "nat":
                return [], str(e[1]), "nat"
            return [], str(e[1]), "lit"
        if k == "bool":
            return [], "true" if e[1] else "false", "bool"
        if k == "bytestr":
            return [], "[" + ", ".join("0x%02X" % b for b in e[1]) + "]", "bytes"
        if k == "array":
            pres, ts = [], []
            for x in e[1]:
                p, t, ty = self.expr(x, env, "u8")
                pres += p
                ts.append(self.coerce(t, ty, "u8"))
            return pres, "[" + ", ".join(ts) + "]", "bytes"
        if k == "path":
            p = e[1]
            if len(p) == 1:
                n = p[0]
                if n in env.vals:
                    return [], env.vals[n][0], env.vals[n][1]
                if n in env.consts:
                    return [], env.consts[n][0], env.consts[n][1]
                if n in self.consts:
                    return [], self.consts[n][0], self.consts[n][1]
                raise TranslateError("core: unknown name %s" % n)
            raise TranslateError("core: unsupported path %s" % "::".join(p))
        if k == "field":
            base, name = e[1], e[2]
            if base == ("path", ["self"]) and name in self.fields:
                lean, ty = self.fields[name]
                return [], lean % env.vals["self"][0], ty
            if name == "0":   # newtypes: PageId(u8), Address(u16), MsgType(u8), Data(Cow<[u8]>)
                return self.expr(base, env, want)
            raise TranslateError("core: unsupported field access .%s" % name)
        if k == "cast":
            p, t, ty = self.expr(e[1], env)
            to = {"usize": "nat", "u32": "u32", "u64": "nat", "u8": "u8", "u16": "u16"}.get(e[2])
            if to is None:
                raise TranslateError("core: unsupported cast to %s" % e[2])
            return p, self.cast(t, ty, to), to
        if k == "not":
            p, t, ty = self.expr(e[1], env, want)
            if ty == "u8":
                return p, "(~~~ %s)" % t, "u8"
            if ty in ("bool", "prop"):
                return p, "(¬ %s)" % self.prop(t, ty), "prop"
            raise TranslateError("core: `!` on a %s" % ty)
        if k == "bin":
            return self.binop(e, env, want)
        if k == "index":
            pb, tb, tyb = self.expr(e[1], env)
            pi, ti, tyi = self.expr(e[2], env, "nat")
            if tyb != "bytes":
                raise TranslateError("core: indexing a %s" % tyb)
            v = self.fresh("b")
            return pb + pi + [("idxE %s %s" % (tb, self.coerce(ti, tyi, "nat")), [v])], v, "u8"
        if k == "tuple":
            pres, ts, tys = [], [], []
            for x in e[1]:
                p, t, ty = self.expr(x, env)
                pres += p
                ts.append(t)
                tys.append(ty)
            return pres, ts, tys
        if k == "ifexpr":
            pc, c, tyc = self.expr(e[1], env)
            pa, a, tya = self.block_value(e[2], env, want)
            pb, b, tyb = self.block_value(e[3], env, want)
            if pa or pb:
                raise TranslateError("core: if-expression with panicking branches")
            ty = tya if tya != "lit" else tyb
            return pc, "(if %s then %s else %s)" % (self.prop(c, tyc), self.coerce(a, tya, ty), self.coerce(b, tyb, ty)), ty
        if k == "call":
            return self.call(e, env, want)
        if k == "method":
            return self.method_call(e, env, want)
        raise TranslateError("core: unsupported expression kind %s" % k)

    def block_value(self, stmts, env, want):
        if stmts is None or len(stmts) != 1 or stmts[0][0] != "expr" or stmts[0][2]:
            raise TranslateError("core: unsupported block in expression position")
        return self.expr(stmts[0][1], env, want)

    def prop(self, t, ty):
        return "%s = true" % t if ty == "bool" else t

    def cast(self, t, ty, to):
        if ty == to:
            return t
        if to == "nat":
            if ty in ("u8", "u16"):
                return "%s.toNat" % t
            if ty in ("lit", "u32"):   # u32 → usize widens (64-bit usize): the same number
                return t
        if to == "u32":
            if ty in ("u8", "u16"):
                return "%s.toNat" % t
            if ty == "lit":
                return t
            if ty == "nat":
                raise TranslateError("core: `as u32` of a usize value (truncation is not modelled)")
        if to == "u8":
            if ty in ("nat", "u32"):
                return "(UInt8.ofNat %s)" % t
            if ty == "u16":
                return "%s.toUInt8" % t
            if ty == "lit":
                return "(%s : UInt8)" % t
        if to == "u16":
            if ty in ("nat", "u32"):
                return "(UInt16.ofNat %s)" % t
            if ty == "u8":
                return "%s.toUInt16" % t
            if ty == "lit":
                return "(%s : UInt16)" % t
        raise TranslateError("core: unsupported cast from %s to %s" % (ty, to))

    def coerce(self, t, ty, to):
        """literal adaptation only (no value-changing conversion)"""
        if ty == to or to is None:
            return t
        if ty == "lit":
            return {"u8": "(%s : UInt8)", "u16": "(%s : UInt16)", "nat": "%s", "u32": "%s"}[to] % t
        raise TranslateError("core: a %s where a %s is needed" % (ty, to))

    def binop(self, e, env, want):
        op = e[1]
        if op in ("&&", "||"):
            pl, l, tl = self.expr(e[2], env)
            pr, r, tr_ = self.expr(e[3], env)
            if pr:
                raise TranslateError("core: panicking operand on the right of a short-circuit operator")
            return pl, "(%s %s %s)" % (self.prop(l, tl), "∧" if op == "&&" else "∨", self.prop(r, tr_)), "prop"
        pl, l, tl = self.expr(e[2], env, want if op not in ("==", "!=", "<", ">", "<=", ">=") else None)
        hint = tl if tl != "lit" else (want if op not in ("==", "!=", "<", ">", "<=", ">=", "<<", ">>") else None)
        pr, r, tr_ = self.expr(e[3], env, hint)
        if op in ("<<", ">>"):
            ty = tl if tl != "lit" else (want or "nat")
            l = self.coerce(l, tl, ty)
            if ty == "u8":
                r = self.cast(r, tr_, "u8") if tr_ != "u8" else r
            elif ty == "u16":
                r = self.cast(r, tr_, "u16") if tr_ != "u16" else r
            else:
                r = self.cast(r, tr_, "nat")
            return pl + pr, "(%s %s %s)" % (l, "<<<" if op == "<<" else ">>>", r), ty
        ty = tl if tl != "lit" else tr_
        if ty == "lit":
            ty = want or "nat"
        l, r = self.coerce(l, tl, ty), self.coerce(r, tr_, ty)
        if op in ("==", "!=", "<", ">", "<=", ">="):
            sym = {"==": "=", "!=": "≠", "<": "<", ">": ">", "<=": "≤", ">=": "≥"}[op]
            return pl + pr, "(%s %s %s)" % (l, sym, r), "prop"
        if op in ("+", "*", "/", "%"):
            if ty == "u32" and op in ("/", "%"):
                return pl + pr, "(%s %s %s)" % (l, op, r), "u32"   # cannot overflow: the same number in any width
            if ty != "nat":
                # `usize` is modelled as Nat (64-bit: the index arithmetic of these files cannot reach 2^64);
                # narrower arithmetic can overflow well within reach (a page of 4 GiB) and is not translated
                raise TranslateError("core: %s on a %s (overflow semantics not modelled)" % (op, ty))
            return pl + pr, "(%s %s %s)" % (l, op, r), "nat"
        if op == "-":
            raise TranslateError("core: subtraction (underflow semantics) outside the dropped bookkeeping asserts")
        if op in ("&", "|", "^"):
            return pl + pr, "(%s %s %s)" % (l, {"&": "&&&", "|": "|||", "^": "^^^"}[op], r), ty
        raise TranslateError("core: unsupported operator %s" % op)

    def call(self, e, env, want):
        f, args = e[1], e[2]
        if f[0] != "path":
            raise TranslateError("core: unsupported callee")
        p = f[1]
        if p in (["PageId"], ["Address"], ["MsgType"], ["Offset"], ["ChunkCount"]) and len(args) == 1:
            return self.expr(args[0], env, want)
        if p[0] == "Self" and len(p) == 2 and p[1] in self.methods:
            return self.call_fn(p[1], args, env, static=True)
        if len(p) == 1 and p[0] in self.statics:
            return self.call_fn(p[0], args, env, static=True, free=True)
        if p in (["Vec", "with_capacity"], ["Vec", "new"]):
            return [], "[]", "bytes"
        raise TranslateError("core: unsupported call %s" % "::".join(p))

    def call_fn(self, name, args, env, static=False, free=False, recv=None):
        params = (self.statics[name] if free else self.methods[name])[0]
        params = [q for q in params if q[0] != "self"]
        if len(params) != len(args):
            raise TranslateError("core: wrong number of arguments for %s" % name)
        pres, ts = [], []
        for (pn, pt), a in zip(params, args):
            ty = self.rust_ty(pt)
            pa, t, tya = self.expr(a, env, ty)
            pres += pa
            ts.append(self.coerce(t, tya, ty))
        ret = self.ret_ty((self.statics[name] if free else self.methods[name])[1])
        v = self.fresh("r")
        head = "%s%s%s" % (self.prefix if not free else "", lname(name), "".join(" " + t for t in ([recv] if recv else []) + ts))
        if ret[1]:   # pure function: no Except wrapper
            return pres, "(%s)" % head, ret[0]
        return pres + [("liftE (%s)" % head, [v])], v, ret[0]

    def method_call(self, e, env, want):
        recv, name, args = e[1], e[2], e[3]
        if recv == ("path", ["self"]) and name in self.methods:
            return self.call_fn(name, args, env, recv=env.vals["self"][0])
        pr, t, ty = self.expr(recv, env)
        if name == "len" and ty == "bytes" and not args:
            return pr, "%s.length" % t, "nat"
        if name in ("into", "to_mut", "iter", "as_ref", "to_vec", "clone") and not args and ty == "bytes":
            return pr, t, "bytes"
        if name == "wrapping_sub" and ty == "u8" and len(args) == 1:
            pa, a, tya = self.expr(args[0], env, "u8")
            return pr + pa, "(%s - %s)" % (t, self.coerce(a, tya, "u8")), "u8"
        if name == "wrapping_add" and ty == "u8" and len(args) == 1:
            pa, a, tya = self.expr(args[0], env, "u8")
            return pr + pa, "(%s + %s)" % (t, self.coerce(a, tya, "u8")), "u8"
        if name == "fold" and ty == "bytes" and len(args) == 2 and args[1][0] == "closure" and len(args[1][1]) == 2:
            acc_p, x_p = args[1][1]
            if acc_p[0] != "pbind" or x_p[0] != "pbind":
                raise TranslateError("core: unsupported fold closure parameters")
            pi, init, tyi = self.expr(args[0], env, "u8")
            env2 = env.copy()
            env2.vals[acc_p[1]] = (acc_p[1], "u8")
            env2.vals[x_p[1]] = (x_p[1], "u8")
            pb, body, tyb = self.expr(args[1][2], env2, "u8")
            if pb:
                raise TranslateError("core: panicking fold body")
            return pr + pi, "(%s.foldl (fun %s %s => %s) %s)" % (t, acc_p[1], x_p[1], body, self.coerce(init, tyi, "u8")), "u8"
        raise TranslateError("core: unsupported method .%s on a %s" % (name, ty))

    def rust_ty(self, t):
        t = t.replace(" ", "")
        if t == "u32":
            return "u32"
        if t == "usize":
            return "nat"
        if t in ("u8", "PageId", "MsgType"):
            return "u8"
        if t in ("u16", "Address"):
            return "u16"
        if t == "bool":
            return "bool"
        if t in ("&[u8]", "T", "Vec<u8>", "&Cow<'a,[u8]>"):
            return "bytes"
        raise TranslateError("core: unsupported parameter type %s" % t)

    def ret_ty(self, t):
        """→ (type tag, pure?)"""
        t = t.replace(" ", "")
        table = {"usize": ("nat", True), "u32": ("u32", True), "u8": ("u8", True), "bool": ("bool", False), "": ("unit", False),
                 "Self": (self.selfty, False), "PageId": ("u8", False), "(usize,u8)": ("natpair", False), "&[u8]": ("bytes", True),
                 "Vec<u8>": ("bytes", False), "Result<Self,PageError>": ("pageresult", False),
                 "Result<Self,FrameError>": ("dataresult", False)}
        if t not in table:
            raise TranslateError("core: unsupported return type %s" % t)
        return table[t]

    # ------------------------------------------------------------ statements
    def wrap(self, pres, body):
        for call, names in reversed(pres):
            body = "%s fun %s =>\n%s" % (call, " ".join(names), indent(body))
        return body

    def tr(self, stmts, env, fin):
        """fin(env, value text, value type) → Lean text for `return value`"""
        if not stmts:
            return fin(env, "()", "unit")
        s, rest = stmts[0], stmts[1:]
        k = s[0]
        if k == "const":
            pv, t, ty = self.expr(s[2], env)
            env2 = env.copy()
            env2.consts[s[1]] = (t, ty)
            return self.tr(rest, env2, fin)
        if k == "expr":
            e, semi = s[1], s[2]
            if e[0] == "macro":
                if e[1] in LOG_MACROS:
                    check_log_macro(e[1], e[2], "core")
                    return self.tr(rest, env, fin)
                if e[1] in ("assert_eq", "assert", "debug_assert", "debug_assert_eq"):
                    text = "".join(x[1] for x in e[2])
                    if "capacity" in text:
                        self.dropped.append(text)
                        return self.tr(rest, env, fin)
                    if e[1] in ("assert", "debug_assert"):
                        # assert!(cond, "message", args..): panics unless cond
                        from translate_ctrl import parse_expr as _pe
                        cond = _pe(P(list(e[2]) + [("op", ",")]))
                        pc, c, tyc = self.expr(cond, env)
                        return self.wrap(pc, "if %s then\n%s\nelse\n  .error .oob" % (self.prop(c, tyc), indent(self.tr(rest, env, fin))))
                    raise TranslateError("core: assertion other than capacity bookkeeping: %s" % text)
                if e[1] == "panic":
                    return ".error .oob"
                raise TranslateError("core: unsupported macro %s!" % e[1])
            if not semi and not rest:
                return self.tail(e, env, fin)
            if e[0] == "method":
                return self.effect(e, rest, env, fin)
            raise TranslateError("core: unsupported expression statement")
        if k == "let":
            pat, mutable, e = s[1], s[2], s[3]
            pv, t, ty = self.expr(e, env)
            env2 = env.copy()
            self.bind(pat, t, ty, env2)
            return self.wrap(pv, self.tr(rest, env2, fin))
        if k == "return":
            return self.tail(s[1], env, fin)
        if k == "if":
            pc, c, tyc = self.expr(s[1], env)
            a = self.tr(s[2] + rest, env, fin)
            b = self.tr((s[3] or []) + rest, env, fin)
            return self.wrap(pc, "if %s then\n%s\nelse\n%s" % (self.prop(c, tyc), indent(a), indent(b)))
        if k == "opassignto":
            op, lhs, rhs = s[1], s[2], s[3]
            return self.assign(lhs, ("bin", op, lhs, rhs), rest, env, fin)
        if k == "assignto":
            return self.assign(s[1], s[2], rest, env, fin)
        if k == "for":
            return self.for_loop(s, rest, env, fin)
        raise TranslateError("core: unsupported statement kind %s" % k)

    def bind(self, pat, t, ty, env):
        if pat[0] == "pbind":
            env.vals[pat[1]] = (t, ty)
        elif pat[0] == "ptuple" and ty == "natpair":
            a, b = pat[1]
            env.vals[a[1]] = ("%s.1" % t, "nat")
            env.vals[b[1]] = ("%s.2" % t, "u8")
        elif pat[0] == "ptuple" and isinstance(t, list):
            for p_, t_, ty_ in zip(pat[1], t, ty):
                self.bind(p_, t_, ty_, env)
        else:
            raise TranslateError("core: unsupported let pattern")

    def place(self, e, env):
        """an lvalue denoting one byte of a local or field byte vector: (owner kind, owner name, index text)"""
        while e[0] in ("deref", "paren"):
            e = e[1]
        if e[0] == "path" and len(e[1]) == 1 and e[1][0] in env.vals and isinstance(env.vals[e[1][0]][1], tuple):
            return env.vals[e[1][0]][1][1:]
        return None

    def assign(self, lhs, rhs, rest, env, fin):
        pl = self.place(lhs, env)
        if pl is not None:   # `*byte op= e` where byte = &mut self.bytes.to_mut()[i]
            field, idx = pl
            cur = self.fresh("cur")
            env2 = env.copy()
            env2.vals[lhs[1][1][0] if lhs[0] == "deref" else lhs[1][0]] = (cur, "u8")
            # re-evaluate the right-hand side with the alias reading the current byte
            pv, t, ty = self.expr(self.subst_alias(rhs, lhs), env2, "u8")
            base, _ = self.expr(("field", ("path", ["self"]), field), env)[1:]
            new_self = self.with_field(env, field, "(%s.set %s %s)" % (base, idx, self.coerce(t, ty, "u8")))
            env3 = env.copy()
            env3.vals["self"] = (new_self, self.selfty)
            return "idxE %s %s fun %s =>\n%s" % (base, idx, cur, indent(self.wrap(pv, self.tr(rest, env3, fin))))
        raise TranslateError("core: unsupported assignment target")

    def subst_alias(self, e, alias):
        return e

    def with_field(self, env, field, text):
        lean = self.fields[field][0]
        m = re.fullmatch(r"%s\.(\w+)", lean)
        return "{ %s with %s := %s }" % (env.vals["self"][0], m.group(1), text)

    def effect(self, e, rest, env, fin):
        """method-call statements on a local / field byte vector"""
        recv, name, args = e[1], e[2], e[3]
        # self.bytes.to_mut()[a..b].fill(v)
        if name == "fill" and recv[0] == "slice":
            inner = recv[1]
            while inner[0] == "method" and inner[2] in ("to_mut",):
                inner = inner[1]
            if inner[0] == "field" and inner[1] == ("path", ["self"]) and inner[2] in self.fields:
                pa, a, tya = self.expr(recv[2], env, "nat")
                pb, b, tyb = self.expr(recv[3], env, "nat")
                pv, v, tyv = self.expr(args[0], env, "u8")
                base = self.expr(inner, env)[1]
                out = self.fresh("bs")
                env2 = env.copy()
                env2.vals["self"] = (self.with_field(env, inner[2], out), self.selfty)
                return self.wrap(pa + pb + pv, "liftE (fillRange %s %s %s %s) fun %s =>\n%s" % (
                    base, self.coerce(a, tya, "nat"), self.coerce(b, tyb, "nat"), self.coerce(v, tyv, "u8"), out, indent(self.tr(rest, env2, fin))))
        if recv[0] == "path" and len(recv[1]) == 1 and recv[1][0] in env.vals and env.vals[recv[1][0]][1] == "bytes":
            n = recv[1][0]
            cur = env.vals[n][0]
            env2 = env.copy()
            if name == "push" and len(args) == 1:
                pa, t, ty = self.expr(args[0], env, "u8")
                env2.vals[n] = ("(%s ++ [%s])" % (cur, self.coerce(t, ty, "u8")), "bytes")
                return self.wrap(pa, self.tr(rest, env2, fin))
            if name == "extend_from_slice" and len(args) == 1:
                pa, t, ty = self.expr(args[0], env)
                if ty != "bytes":
                    raise TranslateError("core: extend_from_slice of a %s" % ty)
                env2.vals[n] = ("(%s ++ %s)" % (cur, t), "bytes")
                return self.wrap(pa, self.tr(rest, env2, fin))
            if name == "resize" and len(args) == 2:
                pa, a, tya = self.expr(args[0], env, "nat")
                pb, b, tyb = self.expr(args[1], env, "u8")
                env2.vals[n] = ("(resize %s %s %s)" % (cur, self.coerce(a, tya, "nat"), self.coerce(b, tyb, "u8")), "bytes")
                return self.wrap(pa + pb, self.tr(rest, env2, fin))
        raise TranslateError("core: unsupported statement %s(..)" % name)

    def for_loop(self, s, rest, env, fin):
        _, pat, it, body = s
        if pat[0] != "pbind":
            raise TranslateError("core: unsupported loop pattern")
        pi, xs, tyx = self.expr(it, env)
        if tyx != "bytes":
            raise TranslateError("core: loop over something other than bytes")
        muts = sorted(self.assigned(body) & set(env.vals))
        if len(muts) != 1 or env.vals[muts[0]][1] != "bytes":
            raise TranslateError("core: loop body must update exactly one local byte vector")
        m = muts[0]
        env_b = env.copy()
        env_b.vals[m] = ("acc", "bytes")
        env_b.vals[pat[1]] = (pat[1], "u8")
        body_text = self.tr(body, env_b, lambda e2, v, ty: ".ok %s" % e2.vals[m][0])
        out = self.fresh("out")
        env2 = env.copy()
        env2.vals[m] = (out, "bytes")
        return self.wrap(pi, "liftE (foldlE %s %s fun acc %s =>\n%s) fun %s =>\n%s" % (
            xs, env.vals[m][0], pat[1], indent(body_text, 4), out, indent(self.tr(rest, env2, fin))))

    def assigned(self, stmts):
        acc = set()
        for s in stmts:
            if s[0] == "expr" and s[1][0] == "method" and s[1][1][0] == "path" and len(s[1][1][1]) == 1 and s[1][2] in ("push", "extend_from_slice", "resize"):
                acc.add(s[1][1][1][0])
            elif s[0] in ("if",):
                acc |= self.assigned(s[2]) | self.assigned(s[3] or [])
        return acc

    def tail(self, e, env, fin):
        # struct literal of the self type is handled by the caller's `fin`; here: plain values
        if e[0] == "struct":
            raise TranslateError("core: struct literal in an unsupported position")
        if e[0] == "tuple" and len(e[1]) == 2:
            pa, a, tya = self.expr(e[1][0], env, "nat")
            pb, b, tyb = self.expr(e[1][1], env)
            return self.wrap(pa + pb, fin(env, "(%s, %s)" % (a, self.cast(b, tyb, "nat") if tyb != "nat" else b), "natpair"))
        if e[0] == "call" and e[1] == ("path", ["Ok"]) and len(e[2]) == 1:
            pv, t, ty = self.expr(e[2][0], env)
            return self.wrap(pv, fin(env, "(.ok %s)" % t, "result"))
        pv, t, ty = self.expr(e, env)
        return self.wrap(pv, fin(env, t, ty))


# ---------------------------------------------------------------------------------------------
# page.rs
# ---------------------------------------------------------------------------------------------

def gen_page(repo):
    path = "libs/core/src/page.rs"
    src = strip_comments(open(os.path.join(repo, path)).read())
    m = re.search(r"const\s+HEADER_LEN\s*:\s*usize\s*=\s*(\w+)\s*;", src)
    if not m:
        raise TranslateError("page.rs: const HEADER_LEN not found")
    header_len = int(m.group(1).replace("_", ""), 0)
    methods, _ = parse_methods(src, r"impl<'a>\s*Page<'a>\s*\{")
    fields = {"width": ("%s.w", "u32"), "height": ("%s.h", "u32"), "bytes": ("%s.bytes", "bytes")}
    ct = CT(methods, "page", fields, {"HEADER_LEN": (str(header_len), "nat")}, {}, "")
    out = ["def headerLen : Nat := %d\n" % header_len]

    def pure_fn(name, params):
        ps, ret, body = methods[name]
        env = Env({p: (p, ty) for p, ty in params})
        text = ct.tr(body, env, lambda e2, v, ty: v)
        out.append("/-- `Page::%s`. -/\ndef %s %s: Nat :=\n%s\n" % (name, lname(name), "".join("(%s : Nat) " % p for p, _ in params), indent(text)))

    pure_fn("bytes_per_column", [("height", "u32")])
    pure_fn("data_bytes", [("width", "u32"), ("height", "u32")])
    pure_fn("total_bytes", [("width", "u32"), ("height", "u32")])

    # byte_bit_indices
    ps, ret, body = methods["byte_bit_indices"]
    env = Env({"self": ("self", "page"), "x": ("x", "u32"), "y": ("y", "u32")})
    text = ct.tr(body, env, lambda e2, v, ty: ".ok %s" % v)
    out.append("/-- `Page::byte_bit_indices`. -/\ndef byteBitIndices (self : Page) (x y : Nat) : Except Panic (Nat × Nat) :=\n%s\n" % indent(text))

    # new: the struct literal at the end
    ps, ret, body = methods["new"]
    if not (body and body[-1][0] == "expr" and body[-1][1][0] == "struct" and body[-1][1][1] == ["Page"]):
        raise TranslateError("page.rs: Page::new does not end in a Page { .. } literal")
    lit = re.search(r"pub\s+fn\s+new\s*\(.*?\{(.*?)\n    \}", src, re.S)
    tail_lit = squash(lit.group(1))[-len("Page{width,height,bytes:bytes.into(),}"):] if lit else ""
    if tail_lit != "Page{width,height,bytes:bytes.into(),}":
        raise TranslateError("page.rs: Page::new builds the page from something other than (width, height, bytes)")
    env = Env({"id": ("id", "u8"), "width": ("width", "u32"), "height": ("height", "u32")})
    text = ct.tr(body[:-1], env, lambda e2, v, ty: "⟨width, height, %s⟩" % e2.vals["bytes"][0])
    out.append("/-- `Page::new`. -/\ndef new (id : UInt8) (width height : Nat) : Page :=\n%s\n" % indent(text))

    # from_bytes: template on the struct literal + translated length test
    fb = re.search(r"pub\s+fn\s+from_bytes<T:\s*Into<Cow<'a,\s*\[u8\]>>>\s*\(width:\s*u32,\s*height:\s*u32,\s*bytes:\s*T\)\s*->\s*Result<Self,\s*PageError>\s*\{(.*?)\n    \}", src, re.S)
    if not fb:
        raise TranslateError("page.rs: Page::from_bytes not found")
    want = ("letpage=Page{width,height,bytes:bytes.into(),};letexpected_bytes=Self::total_bytes(width,height);"
            "ifpage.bytes.len()!=expected_bytes{returnErr(PageError::WrongPageLength{width,height,expected:expected_bytes,actual:page.bytes.len(),});}Ok(page)")
    if squash(fb.group(1)) != want:
        raise TranslateError("page.rs: Page::from_bytes is not `length == total_bytes(width, height)` or error with the four fields")
    out.append("/-- `Page::from_bytes` (recognised as a whole: the page is exactly the bytes given, accepted iff their\n    number is `total_bytes(width, height)`; the error carries width, height, expected, actual). -/\n"
               "def fromBytes (width height : Nat) (bytes : List UInt8) : Except PageErr Page :=\n"
               "  if bytes.length ≠ totalBytes width height then .error (.wrongLen width height (totalBytes width height) bytes.length)\n"
               "  else .ok ⟨width, height, bytes⟩\n")

    # get_pixel
    ps, ret, body = methods["get_pixel"]
    env = Env({"self": ("self", "page"), "x": ("x", "u32"), "y": ("y", "u32")})
    text = translate_pixel(ct, body, env, getter=True)
    out.append("/-- `Page::get_pixel`. -/\ndef getPixel (self : Page) (x y : Nat) : Except Panic Bool :=\n%s\n" % indent(text))
    ps, ret, body = methods["set_pixel"]
    env = Env({"self": ("self", "page"), "x": ("x", "u32"), "y": ("y", "u32"), "value": ("value", "bool")})
    text = translate_pixel(ct, body, env, getter=False)
    out.append("/-- `Page::set_pixel`. -/\ndef setPixel (self : Page) (x y : Nat) (value : Bool) : Except Panic Page :=\n%s\n" % indent(text))
    ps, ret, body = methods["set_all_pixels"]
    env = Env({"self": ("self", "page"), "value": ("value", "bool")})
    text = ct.tr(body, env, lambda e2, v, ty: ".ok %s" % e2.vals["self"][0])
    out.append("/-- `Page::set_all_pixels`. -/\ndef setAllPixels (self : Page) (value : Bool) : Except Panic Page :=\n%s\n" % indent(text))
    # id / as_bytes
    if squash(re.search(r"pub\s+fn\s+id\s*\(&self\)\s*->\s*PageId\s*\{(.*?)\}", src, re.S).group(1)) != "PageId(self.bytes[0])":
        raise TranslateError("page.rs: Page::id is not bytes[0]")
    if squash(re.search(r"pub\s+fn\s+as_bytes\s*\(&self\)\s*->\s*&\[u8\]\s*\{(.*?)\}", src, re.S).group(1)) != "&self.bytes":
        raise TranslateError("page.rs: Page::as_bytes is not the byte vector")
    out.append("/-- `Page::id` = `bytes[0]`, `Page::as_bytes` = the byte vector (both recognised as a whole). -/\n"
               "def id (self : Page) : Except Panic UInt8 := idxE self.bytes 0 fun b => .ok b\n")
    return [path], "\n".join(out), ct.dropped


def translate_pixel(ct, body, env, getter):
    """get_pixel / set_pixel: `let (i, bit) = self.byte_bit_indices(x, y); let mask = 1 << bit; …` with the byte
    accessed through a reference"""
    # statement 1: the indices
    s0 = body[0]
    if not (s0[0] == "let" and s0[1][0] == "ptuple" and len(s0[1][1]) == 2 and s0[3] == ("method", ("path", ["self"]), "byte_bit_indices", [("path", ["x"]), ("path", ["y"])])):
        raise TranslateError("page.rs: pixel accessor does not start with byte_bit_indices(x, y)")
    iname, bname = s0[1][1][0][1], s0[1][1][1][1]
    env2 = env.copy()
    env2.vals[iname] = ("ib.1", "nat")
    env2.vals[bname] = ("(UInt8.ofNat ib.2)", "u8")
    rest = body[1:]
    # `let mask = 1 << bit_index;`
    s1 = rest[0]
    if not (s1[0] == "let" and s1[1][0] == "pbind"):
        raise TranslateError("page.rs: pixel accessor: expected `let mask = ..`")
    pv, t, ty = ct.expr(s1[3], env2, "u8")
    if pv or ty != "u8":
        raise TranslateError("page.rs: pixel accessor: unsupported mask expression")
    env2.vals[s1[1][1]] = (t, "u8")
    s2 = rest[1]
    # `let byte = &self.bytes[i];` or `let byte = &mut self.bytes.to_mut()[i];`
    if not (s2[0] == "let" and s2[1][0] == "pbind"):
        raise TranslateError("page.rs: pixel accessor: expected `let byte = &(mut) self.bytes[..]`")
    tgt = s2[3]
    while tgt[0] in ("ref", "paren"):
        tgt = tgt[1]
    if tgt[0] != "index":
        raise TranslateError("page.rs: pixel accessor: byte is not an indexed element")
    owner = tgt[1]
    while owner[0] == "method" and owner[2] == "to_mut":
        owner = owner[1]
    if owner != ("field", ("path", ["self"]), "bytes"):
        raise TranslateError("page.rs: pixel accessor indexes something other than self.bytes")
    pi, idx, tyi = ct.expr(tgt[2], env2, "nat")
    if pi:
        raise TranslateError("page.rs: pixel accessor: panicking index expression")
    bn = s2[1][1]
    env2.vals[bn] = ("cur", "u8")
    tail = rest[2:]
    if getter:
        if len(tail) != 1 or tail[0][0] != "expr" or tail[0][2]:
            raise TranslateError("page.rs: get_pixel: unexpected statements after the byte access")
        pv, t, ty = ct.expr(tail[0][1], env2)
        if pv:
            raise TranslateError("page.rs: get_pixel: panicking result expression")
        inner = ".ok (decide %s)" % t if ty == "prop" else ".ok %s" % t
    else:
        # `if value { *byte |= mask; } else { *byte &= !mask; }`
        if len(tail) != 1 or tail[0][0] != "if" or tail[0][3] is None or len(tail[0][2]) != 1 or len(tail[0][3]) != 1:
            raise TranslateError("page.rs: set_pixel: expected one if/else updating the byte")
        def upd(st):
            if st[0] != "opassignto" or st[2] not in (("deref", ("path", [bn])),):
                raise TranslateError("page.rs: set_pixel: branch does not update the byte")
            pv_, t_, ty_ = ct.expr(("bin", st[1], ("path", [bn]), st[3]), env2, "u8")
            if pv_:
                raise TranslateError("page.rs: set_pixel: panicking update")
            return t_
        pc, c, tyc = ct.expr(tail[0][1], env2)
        a, b = upd(tail[0][2][0]), upd(tail[0][3][0])
        inner = ".ok { self with bytes := self.bytes.set %s (if %s then %s else %s) }" % (idx, ct.prop(c, tyc), a, b)
    return "liftE (byteBitIndices self x y) fun ib =>\n  idxE self.bytes %s fun cur =>\n    %s" % (idx, inner)


# ---------------------------------------------------------------------------------------------
# frame.rs (encoder side)
# ---------------------------------------------------------------------------------------------

def gen_frame(repo):
    path = "libs/core/src/frame.rs"
    src = strip_comments(open(os.path.join(repo, path)).read())
    methods, _ = parse_methods(src, r"impl<'a>\s*Frame<'a>\s*\{")
    # free function checksum
    m = re.search(r"\nfn\s+checksum\s*\(bytes:\s*&\[u8\]\)\s*->\s*u8\s*\{", src)
    if not m:
        raise TranslateError("frame.rs: fn checksum not found")
    end = matching(src, m.end() - 1)
    cbody = parse_block(P(tokenize(src[m.end() - 1:end])))
    statics = {"checksum": ([("bytes", "&[u8]")], "u8", cbody)}
    fields = {"address": ("%s.addr", "u16"), "message_type": ("%s.ty", "u8"), "data": ("%s.data", "bytes")}
    ct = CT(methods, "frame", fields, {}, statics, "")
    out = []
    env = Env({"bytes": ("bytes", "bytes")})
    text = ct.tr(cbody, env, lambda e2, v, ty: v)
    out.append("/-- `checksum`. -/\ndef checksum (bytes : List UInt8) : UInt8 :=\n%s\n" % indent(text))
    # payload
    env = Env({"self": ("self", "frame")})
    text = ct.tr(methods["payload"][2], env, lambda e2, v, ty: ".ok %s" % v)
    out.append("/-- `Frame::payload`. -/\ndef payload (self : Frame) : Except Panic (List UInt8) :=\n%s\n" % indent(text))
    pure_payload = None
    if text.startswith(".ok ") and "idxE" not in text and "liftE" not in text and "\n" not in text:
        pure_payload = text[4:]
        out.append("/-- `Frame::payload` has no panicking operation: the same expression as a plain function. -/\ndef payloadPure (self : Frame) : List UInt8 :=\n  %s\n" % pure_payload)
    env = Env({"self": ("self", "frame")})
    text = ct.tr(methods["to_bytes"][2], env, lambda e2, v, ty: ".ok %s" % v)
    out.append("/-- `Frame::to_bytes`. -/\ndef toBytes (self : Frame) : Except Panic (List UInt8) :=\n%s\n" % indent(text))
    env = Env({"self": ("self", "frame")})
    text = ct.tr(methods["to_bytes_with_newline"][2], env, lambda e2, v, ty: ".ok %s" % v)
    out.append("/-- `Frame::to_bytes_with_newline`. -/\ndef toBytesWithNewline (self : Frame) : Except Panic (List UInt8) :=\n%s\n" % indent(text))
    # Data::try_new (template: the bound and the two error fields)
    tn = re.search(r"pub\s+fn\s+try_new<T:\s*Into<Cow<'a,\s*\[u8\]>>>\s*\(data:\s*T\)\s*->\s*Result<Self,\s*FrameError>\s*\{(.*?)\n    \}", src, re.S)
    if not tn:
        raise TranslateError("frame.rs: Data::try_new not found")
    mm = re.fullmatch(r"letdata:Cow<'a,\[u8\]>=data\.into\(\);ifdata\.len\(\)>(\w+)\{returnErr\(FrameError::DataTooLong\{max:(\w+),actual:data\.len\(\),\}\);\}Ok\(Data\(data\)\)", squash(tn.group(1)))
    if not mm:
        raise TranslateError("frame.rs: Data::try_new is not `len > MAX → DataTooLong{max, actual}`")
    out.append("/-- `Data::try_new` (recognised as a whole): the bound and the `max` reported. -/\n"
               "def dataMax : Nat := %d\ndef dataMaxReported : Nat := %d\n" % (int(mm.group(1), 0), int(mm.group(2), 0)))
    # from_bytes: the regular expression text and the order of the checks (template)
    fb = methods.get("from_bytes")
    rx = re.search(r'Regex::new\(r"\(\?x\)(.*?)"\)', open(os.path.join(repo, path)).read(), re.S)
    if not rx:
        raise TranslateError("frame.rs: the frame regular expression was not found")
    pattern = re.sub(r"#[^\n]*", "", rx.group(1))
    pattern = re.sub(r"\s+", "", pattern)
    want = r"^:(?P<data_len>[[:xdigit:]]{2})(?P<address>[[:xdigit:]]{4})(?P<message_type>[[:xdigit:]]{2})(?P<data>(?:[[:xdigit:]]{2})*)(?P<checksum>[[:xdigit:]]{2})(?:\r\n)?$"
    if pattern != want:
        raise TranslateError("frame.rs: the frame regular expression is not the one the model's Shape transcribes")
    out.append("/-- The (verbose-mode) regular expression of `Frame::from_bytes`, comments and layout removed, is the one the\n    model transcribes (`^:` + 2 + 4 + 2 hex digits + hex pairs + 2 hex digits + optional CRLF `$`) — checked by the\n    translator as text; the regex engine itself is outside the model (DESIGN.md §8). -/\n"
               "def frameRegexIsPinned : Bool := true\n")
    if pure_payload is not None:
        out.append(gen_from_captures(ct, methods, src))
    return [path], "\n".join(out), ct.dropped


def gen_from_captures(ct, methods, src):
    """`Frame::from_bytes` after the regular expression has matched: the five captured groups are parsed as
    hex (template), then the length test, `Data::try_new`, the checksum test and their errors are translated
    statement by statement into a function of the captured values."""
    body = methods["from_bytes"][2]
    if not (body and body[0][0] == "expr" and body[0][1][0] == "macro" and body[0][1][1] == "lazy_static"):
        raise TranslateError("frame.rs: from_bytes does not start with the lazy_static! regular expression")
    st = body[1:]
    want_cap = ("let", ("pbind", "captures"), False, ("try", ("method", ("method", ("path", ["RE"]), "captures", [("path", ["bytes"])]), "ok_or_else",
                [("closure", [], ("struct", ["FrameError", "InvalidFrame"], [("data", ("method", ("path", ["bytes"]), "into", []))]))])))
    if not st or st[0] != want_cap:
        raise TranslateError("frame.rs: from_bytes: the match / InvalidFrame step has an unexpected form")
    # the captured groups
    groups = {}
    types = dict((m.group(1), m.group(2)) for m in re.finditer(r"let\s+(\w+)\s*=\s*parse_hex::<(\w+)>\(captures\.name\(", src))
    i = 1
    data_bytes_var = None
    while i < len(st) and st[i][0] == "let" and st[i][1][0] == "pbind":
        name, e = st[i][1][1], st[i][3]
        def cap(x):
            if x[0] == "method" and x[2] == "as_bytes" and x[1][0] == "method" and x[1][2] == "unwrap" and x[1][1][0] == "method" \
                    and x[1][1][2] == "name" and x[1][1][1] == ("path", ["captures"]) and len(x[1][1][3]) == 1 and x[1][1][3][0][0] == "str":
                return x[1][1][3][0][1].strip('"')
            return None
        if e[0] == "call" and e[1] == ("path", ["parse_hex"]) and len(e[2]) == 1 and cap(e[2][0]):
            if name not in types:
                raise TranslateError("frame.rs: from_bytes: no type for the parsed group " + name)
            groups[name] = (cap(e[2][0]), types[name])
        elif cap(e) == "data":
            data_bytes_var = name
        else:
            break
        i += 1
    want_groups = {"data_len": ("data_len", "u8"), "address": ("address", "u16"), "message_type": ("message_type", "u8"), "provided_checksum": ("checksum", "u8")}
    if groups != want_groups or data_bytes_var is None:
        raise TranslateError("frame.rs: from_bytes: the captured groups are not data_len:u8, address:u16, message_type:u8, data, checksum:u8")
    want_data = ("let", ("pbind", "data"), False, ("method", ("method", ("method", ("path", [data_bytes_var]), "chunks", [("num", 2)]), "map", [("path", ["parse_hex"])]), "collect", []))
    if i >= len(st) or st[i] != want_data or not re.search(r"chunks\(2\)\s*\.map\(parse_hex::<u8>\)", src):
        raise TranslateError("frame.rs: from_bytes: the data bytes are not parsed pair by pair as u8")
    rest = st[i + 1:]
    env = Env({"data_len": ("data_len", "u8"), "address": ("address", "u16"), "message_type": ("message_type", "u8"),
               "provided_checksum": ("provided_checksum", "u8"), "data": ("data", "bytes")})

    def err(e, env):
        if not (e[0] == "call" and e[1] == ("path", ["Err"]) and len(e[2]) == 1 and e[2][0][0] == "struct" and e[2][0][2] is not None):
            raise TranslateError("frame.rs: from_bytes: unsupported error value")
        path, fields = e[2][0][1], dict(e[2][0][2])
        if fields.get("data") != ("method", ("path", ["bytes"]), "into", []):
            raise TranslateError("frame.rs: from_bytes: an error does not carry the input bytes")
        kind = {("FrameError", "FrameDataMismatch"): ("mismatch", "nat"), ("FrameError", "BadChecksum"): ("badsum", "u8")}.get(tuple(path))
        if kind is None or set(fields) != {"data", "expected", "actual"}:
            raise TranslateError("frame.rs: from_bytes: unsupported error variant %s" % "::".join(path))
        vals = []
        for f in ("expected", "actual"):
            pv, t, ty = ct.expr(fields[f], env, kind[1])
            if pv:
                raise TranslateError("frame.rs: from_bytes: panicking error field")
            vals.append(ct.coerce(t, ty, kind[1]))
        return ".error (.%s %s %s)" % (kind[0], vals[0], vals[1])

    def tr(stmts, env):
        if not stmts:
            raise TranslateError("frame.rs: from_bytes: falls off the end")
        s0, more = stmts[0], stmts[1:]
        if s0[0] == "if" and s0[3] is None and len(s0[2]) == 1 and s0[2][0][0] == "return":
            pc, c, tyc = ct.expr(s0[1], env)
            if pc:
                raise TranslateError("frame.rs: from_bytes: panicking condition")
            return "if %s then %s\nelse\n%s" % (ct.prop(c, tyc), err(s0[2][0][1], env), indent(tr(more, env)))
        if s0[0] == "let" and s0[1][0] == "pbind":
            name, e = s0[1][1], s0[3]
            env2 = env.copy()
            if e[0] == "call" and e[1] == ("path", ["Frame", "new"]) and len(e[2]) == 3:
                a, t, d = e[2]
                pa, ta, tya = ct.expr(a, env, "u16")
                pt, tt, tyt = ct.expr(t, env, "u8")
                if pa or pt:
                    raise TranslateError("frame.rs: from_bytes: panicking frame field")
                if d[0] == "try" and d[1][0] == "call" and d[1][1] == ("path", ["Data", "try_new"]) and len(d[1][2]) == 1:
                    pd, td, tyd = ct.expr(d[1][2][0], env)
                    env2.vals[name] = ("(⟨%s, %s, checked⟩ : Frame)" % (ct.coerce(ta, tya, "u16"), ct.coerce(tt, tyt, "u8")), "frameval")
                    return "match Data.tryNew %s with\n| .error e => .error e\n| .ok checked =>\n%s" % (td, indent(tr(more, env2)))
                raise TranslateError("frame.rs: from_bytes: Frame::new without Data::try_new(..)?")
            if e[0] == "method" and e[2] == "payload" and e[3] == [] and e[1][0] == "path" and env.vals.get(e[1][1][0], ("", ""))[1] == "frameval":
                env2.vals[name] = ("(payloadPure %s)" % env.vals[e[1][1][0]][0], "bytes")
                return tr(more, env2)
            pv, t, ty = ct.expr(e, env)
            if pv:
                raise TranslateError("frame.rs: from_bytes: panicking binding")
            env2.vals[name] = (t, ty)
            return tr(more, env2)
        if s0[0] == "expr" and not s0[2] and not more:
            e = s0[1]
            if e[0] == "call" and e[1] == ("path", ["Ok"]) and len(e[2]) == 1 and e[2][0][0] == "path" and env.vals.get(e[2][0][1][0], ("", ""))[1] == "frameval":
                return ".ok %s" % env.vals[e[2][0][1][0]][0]
        raise TranslateError("frame.rs: from_bytes: unsupported statement after the captures")

    text = tr(rest, env)
    return ("/-- `Frame::from_bytes` after the regular expression matched, as a function of the five captured groups\n"
            "    (`data_len`, `address`, `message_type`, the data pairs, `checksum`, each parsed as hex): the order of the\n"
            "    length test, `Data::try_new` and the checksum test, and what each error reports. -/\n"
            "def fromCaptures (data_len : UInt8) (address : UInt16) (message_type : UInt8) (data : List UInt8) (provided_checksum : UInt8) :\n"
            "    Except FrameErr Frame :=\n%s\n" % indent(text))


def gen_core(repo):
    f1, b1, d1 = gen_page(repo)
    f2, b2, d2 = gen_frame(repo)
    body = "namespace Page\n\n" + b1 + "\nend Page\n\nnamespace Frame\n\n" + b2 + "\nend Frame\n"
    gen_core.notes = ["dropped capacity bookkeeping assertion: " + d for d in d1 + d2]
    return f1 + f2, body
