#!/usr/bin/env python3
"""translate.py — regenerate the table-shaped parts of the Lean model from /repo's Rust sources.

Run by ./check on every invocation (and by setup.sh).  For each *topic* it reads one Rust
function, insists that the function has exactly the table shape it knows how to translate
(anything else is a TranslateError: the topic is then reported as `unavailable` and the property
falls back on the differential correspondence alone), and writes lean/Flipdot/Generated/<Topic>.lean.
The hand-written, stable modules lean/Flipdot/Tie/<Topic>.lean import the generated file and prove
that the generated tables equal the model's functions on their whole (finite) domain.

Topics
  Message   libs/core/src/message.rs     From<Frame> for Message, From<Message> for Frame
  SignType  libs/core/src/sign_type.rs   from_bytes, dimensions, to_bytes
  Serial    libs/serial/src/serial_sign_bus.rs   response_expected, delay_after_send, delay_after_receive,
            try_new timeout; libs/testing/src/odk.rs try_new timeout;
            libs/serial/src/serial_port.rs configure_port setters
  VSign     libs/testing/src/virtual_sign_bus.rs  dispatch and per-handler state tables
  Core      libs/core/src/page.rs (every method of `impl Page`) and libs/core/src/frame.rs (checksum, payload,
            to_bytes, to_bytes_with_newline; Data::try_new and the regular expression as templates), compiled
            statement by statement (translate_core.py)
  VSignFull libs/testing/src/virtual_sign_bus.rs  every method of `impl VirtualSign`, compiled statement by
            statement into a state-passing function (translate_vsign.py), and the bus loop
  Controller  src/sign.rs   every protocol method of `impl Sign`, compiled statement by statement into an
            interaction tree (translate_ctrl.py)

usage: translate.py [REPO] [OUTDIR]      (defaults /repo, <here>/lean/Flipdot/Generated)
prints a JSON status object {topic: {"status": "generated"|"unavailable", "reason": ..., "sha256": ...}}
"""
import hashlib
import json
import os
import re
import sys


class TranslateError(Exception):
    pass


# ---------------------------------------------------------------------------------------------
# a very small Rust reader: comments out, brace matching, top-level splitting
# ---------------------------------------------------------------------------------------------

def strip_comments(src):
    out = []
    i, n = 0, len(src)
    while i < n:
        c = src[i]
        if src.startswith("//", i):
            j = src.find("\n", i)
            i = n if j < 0 else j
        elif src.startswith("/*", i):
            depth, i = 1, i + 2
            while i < n and depth:
                if src.startswith("/*", i):
                    depth += 1
                    i += 2
                elif src.startswith("*/", i):
                    depth -= 1
                    i += 2
                else:
                    i += 1
        elif c == '"':
            j = i + 1
            while j < n and src[j] != '"':
                j += 2 if src[j] == "\\" else 1
            out.append(src[i:j + 1])
            i = j + 1
        elif c == "'" and re.match(r"'(\\.|[^\\'])'", src[i:i + 4]):
            m = re.match(r"'(\\.|[^\\'])'", src[i:i + 4])
            out.append(m.group(0))
            i += len(m.group(0))
        else:
            out.append(c)
            i += 1
    return "".join(out)


OPEN = {"(": ")", "[": "]", "{": "}"}
CLOSE = {")", "]", "}"}


def matching(src, i):
    """index just past the bracket that closes the one at src[i]"""
    assert src[i] in OPEN, (src[i - 10:i + 10])
    stack = [OPEN[src[i]]]
    j = i + 1
    while j < len(src) and stack:
        c = src[j]
        if c == '"':
            j += 1
            while j < len(src) and src[j] != '"':
                j += 2 if src[j] == "\\" else 1
        elif c in OPEN:
            stack.append(OPEN[c])
        elif c in CLOSE:
            if c != stack[-1]:
                raise TranslateError("unbalanced brackets")
            stack.pop()
        j += 1
    if stack:
        raise TranslateError("unbalanced brackets")
    return j


def squash(s):
    """remove all whitespace (and a trailing comma) so that layout does not matter"""
    s = re.sub(r"\s+", "", s)
    return s[:-1] if s.endswith(",") else s


def fn_body(src, header_re, what):
    """the text between the braces of the first item whose header matches header_re"""
    m = re.search(header_re, src)
    if not m:
        raise TranslateError("%s: header not found" % what)
    i = src.find("{", m.end() - 1)
    if i < 0:
        raise TranslateError("%s: no body" % what)
    j = matching(src, i)
    return src[i + 1:j - 1]


def split_top(s, sep=","):
    """split at top-level occurrences of sep"""
    parts, depth, cur, i = [], 0, [], 0
    while i < len(s):
        c = s[i]
        if c in OPEN:
            depth += 1
        elif c in CLOSE:
            depth -= 1
        if depth == 0 and s.startswith(sep, i):
            parts.append("".join(cur))
            cur = []
            i += len(sep)
            continue
        cur.append(c)
        i += 1
    parts.append("".join(cur))
    return parts


def match_arms(body, what):
    """[(pattern, expr)] of a match body, both squashed; `=> { .. }` bodies keep their braces"""
    arms = []
    i, n = 0, len(body)
    while True:
        while i < n and body[i] in " \t\r\n,":
            i += 1
        if i >= n:
            break
        # pattern up to top-level =>
        depth, j = 0, i
        while j < n:
            c = body[j]
            if c in OPEN:
                depth += 1
            elif c in CLOSE:
                depth -= 1
            elif depth == 0 and body.startswith("=>", j):
                break
            j += 1
        if j >= n:
            raise TranslateError("%s: arm without =>" % what)
        pat = body[i:j]
        k = j + 2
        while k < n and body[k] in " \t\r\n":
            k += 1
        if k < n and body[k] == "{":
            e = matching(body, k)
            expr = body[k:e]
            k = e
        else:
            depth, e = 0, k
            while e < n:
                c = body[e]
                if c in OPEN:
                    e = matching(body, e)
                    continue
                if c == "," and depth == 0:
                    break
                e += 1
            expr = body[k:e]
            k = e
        arms.append((squash(pat), squash(expr)))
        i = k
    return arms


def the_match(body, scrutinee_squashed, what):
    """body of the unique `match <scrutinee> { .. }` in body; also returns the text around it"""
    for m in re.finditer(r"\bmatch\b", body):
        i = body.find("{", m.end())
        if i < 0:
            continue
        if squash(body[m.end():i]) == scrutinee_squashed:
            j = matching(body, i)
            return body[i + 1:j - 1], body[:m.start()], body[j:]
    raise TranslateError("%s: `match %s` not found" % (what, scrutinee_squashed))


def num(s, what):
    s = s.replace("_", "")
    m = re.fullmatch(r"(0x[0-9A-Fa-f]+|\d+)(u8|u16|u32|usize)?", s)
    if not m:
        raise TranslateError("%s: not an integer literal: %s" % (what, s))
    return int(m.group(1), 0)


def lc(name):
    return name[0].lower() + name[1:]


STATES = ["Unconfigured", "ConfigInProgress", "ConfigReceived", "ConfigFailed", "PixelsInProgress", "PixelsReceived",
          "PixelsFailed", "PageLoaded", "PageLoadInProgress", "PageShown", "PageShowInProgress", "ShowingPages", "ReadyToReset"]
OPS = ["ReceiveConfig", "ReceivePixels", "ShowLoadedPage", "LoadNextPage", "StartReset", "FinishReset"]
SIGNS = ["Max3000Front112x16", "Max3000Front98x16", "Max3000Side90x7", "Max3000Rear30x10", "Max3000Rear23x10", "Max3000Dash30x7",
         "HorizonFront160x16", "HorizonFront140x16", "HorizonSide96x8", "HorizonRear48x16", "HorizonDash40x12"]


def state(s, what):
    m = re.fullmatch(r"State::(\w+)", s)
    if not m or m.group(1) not in STATES:
        raise TranslateError("%s: not a known State: %s" % (what, s))
    return "State." + lc(m.group(1))


def op(s, what):
    m = re.fullmatch(r"Operation::(\w+)", s)
    if not m or m.group(1) not in OPS:
        raise TranslateError("%s: not a known Operation: %s" % (what, s))
    return "Op." + lc(m.group(1))


def hexb(n):
    return "0x%02X" % n


def header(topic, files, repo):
    h = hashlib.sha256()
    for f in files:
        h.update(open(os.path.join(repo, f), "rb").read())
    lines = ["/-", "GENERATED by /verif/translate.py from", ]
    lines += ["  " + f for f in files]
    lines += ["(sha256 of these files: %s)" % h.hexdigest(),
              "Do not edit: it is rewritten from /repo's working tree on every run of ./check.",
              "lean/Flipdot/Tie/%s.lean proves that these tables equal the hand-written model." % topic, "-/"]
    return "\n".join(lines) + "\n", h.hexdigest()


# ---------------------------------------------------------------------------------------------
# Message
# ---------------------------------------------------------------------------------------------

def kind_of_decode_rhs(e, what):
    """right-hand side of an arm of From<Frame> for Message → Lean Kind term"""
    if e == "Message::SendData(Offset(frame.address().0),frame.into_data())":
        return "Kind.data"
    if e == "Message::DataChunksSent(ChunkCount(frame.address().0))":
        return "Kind.chunks"
    if e == "Message::Unknown(frame)":
        return "Kind.unknown"
    m = re.fullmatch(r"Message::(Hello|QueryState|Goodbye|PixelsComplete)\(frame\.address\(\)\)", e)
    if m:
        return {"Hello": "Kind.hello", "QueryState": "Kind.query", "Goodbye": "Kind.goodbye", "PixelsComplete": "Kind.pixelsComplete"}[m.group(1)]
    m = re.fullmatch(r"Message::ReportState\(frame\.address\(\),(State::\w+)\)", e)
    if m:
        return "(Kind.report %s)" % state(m.group(1), what)
    m = re.fullmatch(r"Message::(RequestOperation|AckOperation)\(frame\.address\(\),(Operation::\w+)\)", e)
    if m:
        return "(Kind.%s %s)" % ("request" if m.group(1) == "RequestOperation" else "ack", op(m.group(2), what))
    raise TranslateError("%s: unrecognised right-hand side: %s" % (what, e))


def ty_pat(p, what):
    """`MsgType(n)` → n, `_` → None"""
    if p == "_":
        return None
    m = re.fullmatch(r"MsgType\((\w+)\)", p)
    if not m:
        raise TranslateError("%s: unrecognised type pattern: %s" % (what, p))
    return num(m.group(1), what)


def chain(arms, default_required, what):
    """[(cond or None, rhs)] → nested if-then-else text; the last arm must be the catch-all"""
    if not arms or arms[-1][0] is not None:
        raise TranslateError("%s: no final catch-all arm" % what)
    for c, _ in arms[:-1]:
        if c is None:
            raise TranslateError("%s: catch-all arm before the end" % what)
    lines = []
    for c, r in arms[:-1]:
        lines.append("  %sif %s then %s" % ("else " if lines else "", c, r))
    lines.append("  %s%s" % ("else " if lines else "", arms[-1][1]))
    return "\n".join(lines)


def gen_message(repo):
    path = "libs/core/src/message.rs"
    src = strip_comments(open(os.path.join(repo, path)).read())
    # ---- decode
    imp = fn_body(src, r"impl<'a>\s*From<Frame<'a>>\s*for\s*Message<'a>\s*\{", "From<Frame> for Message")
    body = fn_body(imp, r"fn\s+from\s*\(\s*frame\s*:\s*Frame<'a>\s*\)\s*->\s*Self\s*\{", "Message::from(frame)")
    outer, pre, post = the_match(body, "frame.data().len()", "Message::from")
    if squash(pre) or squash(post):
        raise TranslateError("Message::from: code around the match on the data length")
    arms = match_arms(outer, "Message::from outer match")
    if [a[0] for a in arms] != ["0", "1", "_"]:
        raise TranslateError("Message::from: outer arms are %s, expected 0, 1, _" % [a[0] for a in arms])

    def inner(expr, scrut, what):
        m = re.fullmatch(r"match(.*?)\{(.*)\}", expr, re.S)
        if not m or m.group(1) != scrut:
            raise TranslateError("%s: expected `match %s {..}`" % (what, scrut))
        return m.group(2)

    # arms were squashed; re-parse from the unsquashed text instead
    def inner_arms(idx, scrut, what):
        raw_arms = []
        # locate the idx-th arm's expression in the unsquashed outer text
        i, n, k = 0, len(outer), 0
        pos = []
        for m in re.finditer(r"=>\s*match\b", outer):
            b = outer.find("{", m.end())
            if squash(outer[m.end():b]) != scrut[k]:
                raise TranslateError("%s: scrutinee %s, expected %s" % (what, squash(outer[m.end():b]), scrut[k]))
            e = matching(outer, b)
            pos.append(outer[b + 1:e - 1])
            k += 1
            if k == len(scrut):
                break
        if len(pos) != len(scrut):
            raise TranslateError("%s: expected %d inner matches" % (what, len(scrut)))
        return pos[idx]

    scruts = ["frame.message_type()", "(frame.message_type(),frame.data()[0])", "frame.message_type()"]
    a0 = match_arms(inner_arms(0, scruts, "Message::from"), "len 0 arms")
    a1 = match_arms(inner_arms(1, scruts, "Message::from"), "len 1 arms")
    an = match_arms(inner_arms(2, scruts, "Message::from"), "len >= 2 arms")

    def simple(arms, what):
        res = []
        for p, e in arms:
            t = ty_pat(p, what)
            res.append((None if t is None else "ty = %d" % t, kind_of_decode_rhs(e, what)))
        return res

    def pair(arms, what):
        res = []
        for p, e in arms:
            m = re.fullmatch(r"\((.*),(.*)\)", p)
            if not m:
                raise TranslateError("%s: pattern is not a pair: %s" % (what, p))
            t = ty_pat(m.group(1), what)
            b = None if m.group(2) == "_" else num(m.group(2), what)
            conds = []
            if t is not None:
                conds.append("ty = %d" % t)
            if b is not None:
                conds.append("b = %s" % hexb(b))
            res.append((" ∧ ".join(conds) if conds else None, kind_of_decode_rhs(e, what)))
        return res

    out = []
    out.append("/-- `Message::from(Frame)`, data length 0: `match frame.message_type()`. -/")
    out.append("def decodeKind0 (ty : UInt8) : Kind :=\n" + chain(simple(a0, "len 0"), True, "len 0"))
    out.append("")
    out.append("/-- `Message::from(Frame)`, data length 1: `match (frame.message_type(), frame.data()[0])`. -/")
    out.append("def decodeKind1 (ty b : UInt8) : Kind :=\n" + chain(pair(a1, "len 1"), True, "len 1"))
    out.append("")
    out.append("/-- `Message::from(Frame)`, data length ≥ 2: `match frame.message_type()`. -/")
    out.append("def decodeKindN (ty : UInt8) : Kind :=\n" + chain(simple(an, "len >= 2"), True, "len >= 2"))
    out.append("")

    # ---- encode
    imp = fn_body(src, r"impl<'a>\s*From<Message<'a>>\s*for\s*Frame<'a>\s*\{", "From<Message> for Frame")
    body = fn_body(imp, r"fn\s+from\s*\(\s*message\s*:\s*Message<'a>\s*\)\s*->\s*Self\s*\{", "Frame::from(message)")
    inner_body, pre, post = the_match(body, "message", "Frame::from")
    if squash(pre) or squash(post):
        raise TranslateError("Frame::from: code around the match on the message")
    enc = []
    seen = set()
    for p, e in match_arms(inner_body, "Frame::from arms"):
        what = "Frame::from arm %s" % p
        if p == "Message::SendData(Offset(offset),data)":
            m = re.fullmatch(r"Frame::new\(Address\(offset\),MsgType\((\w+)\),data\)", e)
            if not m:
                raise TranslateError(what + ": unrecognised right-hand side " + e)
            k, shape = "Kind.data", "EncShape.payload %d" % num(m.group(1), what)
        elif p == "Message::Unknown(frame)":
            if e != "frame":
                raise TranslateError(what + ": unrecognised right-hand side " + e)
            k, shape = "Kind.unknown", "EncShape.passthrough"
        else:
            m = re.fullmatch(r"Message::(\w+)\((.*)\)", p)
            if not m:
                raise TranslateError(what + ": unrecognised pattern")
            name, args = m.group(1), split_top(m.group(2))
            if name == "DataChunksSent":
                if args != ["ChunkCount(chunks)"]:
                    raise TranslateError(what + ": unrecognised pattern")
                addr, k = "Address(chunks)", "Kind.chunks"
            elif name in ("Hello", "QueryState", "Goodbye", "PixelsComplete") and args == ["address"]:
                addr = "address"
                k = {"Hello": "Kind.hello", "QueryState": "Kind.query", "Goodbye": "Kind.goodbye", "PixelsComplete": "Kind.pixelsComplete"}[name]
            elif name == "ReportState" and len(args) == 2 and args[0] == "address":
                addr, k = "address", "Kind.report %s" % state(args[1], what)
            elif name in ("RequestOperation", "AckOperation") and len(args) == 2 and args[0] == "address":
                addr, k = "address", "Kind.%s %s" % ("request" if name == "RequestOperation" else "ack", op(args[1], what))
            else:
                raise TranslateError(what + ": unrecognised pattern")
            m = re.fullmatch(r"Frame::new\((.*?),MsgType\((\w+)\),Data::from\(&\[(.*)\]\)\)", e)
            if not m or m.group(1) != addr:
                raise TranslateError(what + ": unrecognised right-hand side " + e)
            data = [hexb(num(x, what)) for x in split_top(m.group(3)) if x]
            shape = "EncShape.fixed %d [%s]" % (num(m.group(2), what), ", ".join(data))
        if k in seen:
            raise TranslateError(what + ": duplicate arm")
        seen.add(k)
        enc.append("  | %s => %s" % (k.replace("Kind.", ".").replace("State.", ".").replace("Op.", "."), shape.replace("EncShape.", ".")))
    out.append("/-- `Frame::from(Message)`: the frame layout chosen for each kind of message. -/")
    out.append("def encodeShape : Kind → EncShape\n" + "\n".join(enc))
    return [path], "\n".join(out) + "\n"


# ---------------------------------------------------------------------------------------------
# SignType
# ---------------------------------------------------------------------------------------------

def sign(s, what):
    m = re.fullmatch(r"SignType::(\w+)", s)
    if not m or m.group(1) not in SIGNS:
        raise TranslateError("%s: not a known SignType: %s" % (what, s))
    return "." + lc(m.group(1))


def gen_signtype(repo):
    path = "libs/core/src/sign_type.rs"
    src = strip_comments(open(os.path.join(repo, path)).read())
    imp = fn_body(src, r"impl\s+SignType\s*\{", "impl SignType")
    out = []
    # from_bytes
    body = fn_body(imp, r"pub\s+fn\s+from_bytes\s*\(\s*bytes\s*:\s*&\[u8\]\s*\)\s*->\s*Result<Self,\s*SignTypeError>\s*\{", "from_bytes")
    mbody, pre, post = the_match(body, "(bytes[0],bytes[1])", "from_bytes")
    m = re.fullmatch(r"ifbytes\.len\(\)!=(\w+)\{returnErr\(SignTypeError::WrongConfigLength\{expected:(\w+),actual:bytes\.len\(\),?\}\);\}", squash(pre))
    if not m or squash(post):
        raise TranslateError("from_bytes: unexpected code around the length guard / the match")
    out.append("/-- `from_bytes`: the length the guard insists on, and the length it reports as expected. -/")
    out.append("def configLen : Nat := %d" % num(m.group(1), "from_bytes"))
    out.append("def configLenReported : Nat := %d" % num(m.group(2), "from_bytes"))
    out.append("")
    arms = []
    for p, e in match_arms(mbody, "from_bytes arms"):
        if p == "_":
            if not re.fullmatch(r"Err\(SignTypeError::UnknownConfig\{bytes:bytes\.into\(\),?\}\)", e):
                raise TranslateError("from_bytes: unrecognised catch-all " + e)
            arms.append((None, "none"))
            continue
        m = re.fullmatch(r"\((\w+),(\w+)\)", p)
        m2 = re.fullmatch(r"Ok\((SignType::\w+)\)", e)
        if not m or not m2:
            raise TranslateError("from_bytes: unrecognised arm %s => %s" % (p, e))
        arms.append(("fam = %s ∧ id = %s" % (hexb(num(m.group(1), p)), hexb(num(m.group(2), p))), "some " + sign(m2.group(1), p)))
    out.append("/-- `from_bytes`: `match (bytes[0], bytes[1])`. -/")
    out.append("def ofCode (fam id : UInt8) : Option SignType :=\n" + chain(arms, True, "from_bytes"))
    out.append("")
    # dimensions
    body = fn_body(imp, r"pub\s+fn\s+dimensions\s*\(\s*self\s*\)\s*->\s*\(u32,\s*u32\)\s*\{", "dimensions")
    mbody, pre, post = the_match(body, "self", "dimensions")
    if squash(pre) or squash(post):
        raise TranslateError("dimensions: code around the match")
    rows = []
    for p, e in match_arms(mbody, "dimensions arms"):
        m = re.fullmatch(r"\((\w+),(\w+)\)", e)
        if not m:
            raise TranslateError("dimensions: unrecognised arm %s => %s" % (p, e))
        rows.append("  | %s => (%d, %d)" % (sign(p, "dimensions"), num(m.group(1), p), num(m.group(2), p)))
    out.append("/-- `dimensions`. -/")
    out.append("def dims : SignType → Nat × Nat\n" + "\n".join(rows))
    out.append("")
    # to_bytes
    body = fn_body(imp, r"pub\s+fn\s+to_bytes\s*\(\s*self\s*\)\s*->\s*&'static\s*\[u8\]\s*\{", "to_bytes")
    mbody, pre, post = the_match(body, "self", "to_bytes")
    if squash(pre) or squash(post):
        raise TranslateError("to_bytes: code around the match")
    rows = []
    for p, e in match_arms(mbody, "to_bytes arms"):
        m = re.fullmatch(r"&\[(.*)\]", e)
        if not m:
            raise TranslateError("to_bytes: unrecognised arm %s => %s" % (p, e))
        bs = [hexb(num(x, p)) for x in split_top(m.group(1)) if x]
        rows.append("  | %s => [%s]" % (sign(p, "to_bytes"), ", ".join(bs)))
    out.append("/-- `to_bytes`. -/")
    out.append("def toBytes : SignType → List UInt8\n" + "\n".join(rows))
    return [path], "\n".join(out) + "\n"


# ---------------------------------------------------------------------------------------------
# Serial
# ---------------------------------------------------------------------------------------------

def kind_pattern(p, what):
    """a Message pattern with wildcards → (Lean pattern over Kind)"""
    m = re.fullmatch(r"Message::(\w+)\((.*)\)", p)
    if not m:
        raise TranslateError("%s: unrecognised message pattern %s" % (what, p))
    name, args = m.group(1), split_top(m.group(2))
    plain = {"Hello": ".hello", "QueryState": ".query", "Goodbye": ".goodbye", "PixelsComplete": ".pixelsComplete",
             "DataChunksSent": ".chunks", "Unknown": ".unknown"}
    if name in plain and args == ["_"]:
        return plain[name]
    if name == "SendData" and args == ["_", "_"]:
        return ".data"
    if name in ("ReportState", "RequestOperation", "AckOperation") and len(args) == 2 and args[0] == "_":
        ctor = {"ReportState": ".report", "RequestOperation": ".request", "AckOperation": ".ack"}[name]
        if args[1] == "_":
            return "%s _" % ctor
        sub = state(args[1], what) if name == "ReportState" else op(args[1], what)
        return "%s %s" % (ctor, sub.replace("State.", ".").replace("Op.", "."))
    raise TranslateError("%s: unrecognised message pattern %s" % (what, p))


def millis(e, what):
    m = re.fullmatch(r"\{?Some\(Duration::from_(millis|secs)\((\w+)\)\)\}?", e)
    if not m:
        raise TranslateError("%s: unrecognised duration %s" % (what, e))
    return num(m.group(2), what) * (1000 if m.group(1) == "secs" else 1)


def gen_serial(repo):
    p1, p2, p3 = "libs/serial/src/serial_sign_bus.rs", "libs/serial/src/serial_port.rs", "libs/testing/src/odk.rs"
    src = strip_comments(open(os.path.join(repo, p1)).read())
    out = []
    body = fn_body(src, r"fn\s+response_expected\s*\(\s*message\s*:\s*&Message<'_>\s*\)\s*->\s*bool\s*\{", "response_expected")
    m = re.fullmatch(r"matches!\(\*message,(.*)\)", squash(body))
    if not m:
        raise TranslateError("response_expected: not a single matches!(*message, ..)")
    pats = [kind_pattern(p, "response_expected") for p in split_top(m.group(1), "|")]
    out.append("/-- `response_expected`. -/")
    out.append("def respExpected : Kind → Bool\n  | %s => true\n  | _ => false" % " | ".join(pats))
    out.append("")
    for fn, lean in (("delay_after_send", "delaySend"), ("delay_after_receive", "delayReceive")):
        body = fn_body(src, r"fn\s+%s\s*\(\s*message\s*:\s*&Message<'_>\s*\)\s*->\s*Option<Duration>\s*\{" % fn, fn)
        mbody, pre, post = the_match(body, "*message", fn)
        if squash(pre) or squash(post):
            raise TranslateError(fn + ": code around the match")
        rows = []
        arms = match_arms(mbody, fn)
        if not arms or arms[-1] != ("_", "None"):
            raise TranslateError(fn + ": last arm is not `_ => None`")
        for p, e in arms[:-1]:
            pats = [kind_pattern(x, fn) for x in split_top(p, "|")]
            rows.append("  | %s => some %d" % (" | ".join(pats), millis(e, fn)))
        rows.append("  | _ => none")
        out.append("/-- `%s` (milliseconds). -/" % fn)
        out.append("def %s : Kind → Option Nat\n%s" % (lean, "\n".join(rows)))
        out.append("")
    # the order of port operations in process_message
    body = fn_body(src, r"fn\s+process_message<'a>\s*\(\s*&mut\s+self\s*,\s*message\s*:\s*Message<'_>\s*\)[^{]*\{", "SerialSignBus::process_message")
    sq = squash(re.sub(r"debug!\([^;]*\);", "", body))
    expected = ("letresponse_expected=response_expected(&message);letdelay=delay_after_send(&message);"
                "letframe=Frame::from(message);frame.write(&mutself.port)?;"
                "ifletSome(duration)=delay{thread::sleep(duration);}"
                "ifresponse_expected{letframe=Frame::read(&mutself.port)?;letmessage=Message::from(frame);"
                "ifletSome(duration)=delay_after_receive(&message){thread::sleep(duration);}Ok(Some(message))}else{Ok(None)}")
    notes = []
    if sq != expected:
        notes.append("SerialSignBus::process_message no longer has, token for token, the statement order the model serialStep transcribes (classify, write, pause, read + pause when a response is expected); only the differential correspondence ties it")
    # timeouts
    body = fn_body(src, r"pub\s+fn\s+try_new\s*\(\s*mut\s+port\s*:\s*P\s*\)[^{]*\{", "SerialSignBus::try_new")
    m = re.fullmatch(r"serial_port::configure_port\(&mutport,Duration::from_(secs|millis)\((\w+)\)\)\?;Ok\(SerialSignBus\{port\}\)", squash(body))
    if not m:
        raise TranslateError("SerialSignBus::try_new: unrecognised body")
    out.append("/-- `SerialSignBus::try_new`: read timeout in milliseconds. -/")
    out.append("def serialTimeoutMs : Nat := %d" % (num(m.group(2), "try_new") * (1000 if m.group(1) == "secs" else 1)))
    odk = strip_comments(open(os.path.join(repo, p3)).read())
    body = fn_body(odk, r"pub\s+fn\s+try_new\s*\(\s*mut\s+port\s*:\s*P\s*,\s*bus\s*:\s*B\s*\)[^{]*\{", "Odk::try_new")
    m = re.fullmatch(r"flipdot_serial::configure_port\(&mutport,Duration::from_(secs|millis)\((\w+)\)\)\?;Ok\(Odk\{port,bus\}\)", squash(body))
    if not m:
        raise TranslateError("Odk::try_new: unrecognised body")
    out.append("/-- `Odk::try_new`: read timeout in milliseconds. -/")
    out.append("def odkTimeoutMs : Nat := %d" % (num(m.group(2), "try_new") * (1000 if m.group(1) == "secs" else 1)))
    out.append("")
    # configure_port
    sp = strip_comments(open(os.path.join(repo, p2)).read())
    body = fn_body(sp, r"pub\s+fn\s+configure_port<P:\s*SerialPort>\s*\(\s*port\s*:\s*&mut\s+P\s*,\s*timeout\s*:\s*Duration\s*\)[^{]*\{", "configure_port")
    m = re.fullmatch(r"port\.reconfigure\(&\|settings\|\{(.*)Ok\(\(\)\)\}\)\?;port\.set_timeout\(timeout\)\?;Ok\(\(\)\)", squash(body))
    if not m:
        raise TranslateError("configure_port: unrecognised body")
    setters = {}
    for stmt in [s for s in m.group(1).split(";") if s]:
        mm = re.fullmatch(r"settings\.set_(\w+)\(serial::(\w+)\)(\?)?", stmt)
        if not mm or mm.group(1) in setters:
            raise TranslateError("configure_port: unrecognised statement " + stmt)
        setters[mm.group(1)] = (mm.group(2), bool(mm.group(3)))
    if sorted(setters) != ["baud_rate", "char_size", "flow_control", "parity", "stop_bits"]:
        raise TranslateError("configure_port: setters are %s" % sorted(setters))
    if not setters["baud_rate"][1] or any(setters[k][1] for k in setters if k != "baud_rate"):
        raise TranslateError("configure_port: unexpected `?` placement")
    names = {"baud_rate": {"Baud110": ".b110", "Baud300": ".b300", "Baud600": ".b600", "Baud1200": ".b1200", "Baud2400": ".b2400",
                           "Baud4800": ".b4800", "Baud9600": ".b9600", "Baud19200": ".b19200", "Baud38400": ".b38400",
                           "Baud57600": ".b57600", "Baud115200": ".b115200"},
             "char_size": {"Bits5": ".bits5", "Bits6": ".bits6", "Bits7": ".bits7", "Bits8": ".bits8"},
             "parity": {"ParityNone": ".none", "ParityOdd": ".odd", "ParityEven": ".even"},
             "stop_bits": {"Stop1": ".stop1", "Stop2": ".stop2"},
             "flow_control": {"FlowNone": ".none", "FlowSoftware": ".software", "FlowHardware": ".hardware"}}
    vals = []
    for k in ("baud_rate", "char_size", "parity", "stop_bits", "flow_control"):
        v = setters[k][0]
        if v not in names[k]:
            raise TranslateError("configure_port: unknown value %s for %s" % (v, k))
        vals.append(names[k][v])
    out.append("/-- `configure_port`: the five settings written by the reconfigure closure (all five setters are")
    out.append("    present, unconditionally, followed by `set_timeout(timeout)?`). -/")
    out.append("def portSettings : PortSettings := ⟨%s⟩" % ", ".join(vals))
    gen_serial.notes = notes
    return [p1, p2, p3], "\n".join(out) + "\n"


# ---------------------------------------------------------------------------------------------
# VSign
# ---------------------------------------------------------------------------------------------

HANDLERS = ["query_state", "receive_config", "send_data", "data_chunks_sent", "receive_pixels", "pixels_complete",
            "show_loaded_page", "load_next_page", "start_reset", "finish_reset", "goodbye"]


def state_set(p, what):
    return [state(x, what).replace("State.", ".") for x in split_top(p, "|")]


def gen_vsign(repo):
    path = "libs/testing/src/virtual_sign_bus.rs"
    src = strip_comments(open(os.path.join(repo, path)).read())
    imp = fn_body(src, r"impl\s+VirtualSign<'_>\s*\{", "impl VirtualSign")
    out = []
    # --- dispatch
    body = fn_body(imp, r"pub\s+fn\s+process_message<'a>\s*\(\s*&mut\s+self\s*,\s*message\s*:\s*&Message<'_>\s*\)[^{]*\{", "VirtualSign::process_message")
    mbody, pre, post = the_match(body, "*message", "process_message")
    if squash(pre) or squash(post):
        raise TranslateError("process_message: code around the match")
    rows = []
    arms = match_arms(mbody, "process_message")
    if not arms or arms[-1] != ("_", "None"):
        raise TranslateError("process_message: last arm is not `_ => None`")
    for p, e in arms[:-1]:
        guarded = False
        m = re.fullmatch(r"(.*)ifaddress==self\.address", p)
        if m:
            guarded, p = True, m.group(1)
        pats = []
        for alt in split_top(p, "|"):
            mm = re.fullmatch(r"Message::(\w+)\((.*)\)", alt)
            if not mm:
                raise TranslateError("process_message: unrecognised pattern " + alt)
            name, args = mm.group(1), split_top(mm.group(2))
            if name in ("Hello", "QueryState", "Goodbye", "PixelsComplete") and args == ["address"]:
                pats.append({"Hello": ".hello", "QueryState": ".query", "Goodbye": ".goodbye", "PixelsComplete": ".pixelsComplete"}[name])
                if not guarded:
                    raise TranslateError("process_message: addressed message without the address guard: " + alt)
            elif name == "RequestOperation" and len(args) == 2 and args[0] == "address":
                pats.append(".request " + op(args[1], alt).replace("Op.", "."))
                if not guarded:
                    raise TranslateError("process_message: addressed message without the address guard: " + alt)
            elif name == "SendData" and args == ["offset", "refdata"]:
                pats.append(".data")
                if guarded:
                    raise TranslateError("process_message: guard on an unaddressed message")
            elif name == "DataChunksSent" and args == ["chunks"]:
                pats.append(".chunks")
                if guarded:
                    raise TranslateError("process_message: guard on an unaddressed message")
            else:
                raise TranslateError("process_message: unrecognised pattern " + alt)
        always = e.startswith("Some(") and e.endswith(")")
        call = e[5:-1] if always else e
        mm = re.fullmatch(r"self\.(\w+)\((.*)\)", call)
        if not mm or mm.group(1) not in HANDLERS:
            raise TranslateError("process_message: unrecognised handler call " + e)
        h = mm.group(1)
        want_args = {"send_data": "offset,data.get()", "data_chunks_sent": "chunks"}.get(h, "")
        if mm.group(2) != want_args:
            raise TranslateError("process_message: unexpected arguments in " + e)
        if always != (h in ("query_state", "start_reset")):
            raise TranslateError("process_message: unexpected Some(..) wrapping in " + e)
        rows.append("  | %s => some (%s, .%s)" % (" | ".join(pats), "true" if guarded else "false", lc("".join(w.capitalize() for w in h.split("_")))))
    rows.append("  | _ => none")
    out.append("/-- `process_message`: which handler a message kind is given to, and whether the arm carries the")
    out.append("    `if address == self.address` guard. -/")
    out.append("def dispatch : Kind → Option (Bool × Handler)\n" + "\n".join(rows))
    out.append("")

    def method(name, sig_tail=r"[^{]*"):
        return fn_body(imp, r"fn\s+%s(<'a>)?\s*\(\s*&mut\s+self\b%s\{" % (name, sig_tail), name)

    # --- query_state: the automatic advance
    body = method("query_state")
    m = re.fullmatch(r"letstate=self\.state;matchstate\{(.*)\};?Message::ReportState\(self\.address,state\)", squash(body))
    if not m:
        raise TranslateError("query_state: unrecognised body")
    rows = []
    qbody, _, _ = the_match(body, "state", "query_state")
    arms = match_arms(qbody, "query_state")
    if not arms or arms[-1] != ("_", "{}"):
        raise TranslateError("query_state: last arm is not `_ => {}`")
    for p, e in arms[:-1]:
        mm = re.fullmatch(r"self\.state=(State::\w+)", e)
        if not mm:
            raise TranslateError("query_state: unrecognised arm " + e)
        rows.append("  | %s => %s" % (" | ".join(state_set(p, "query_state")), state(mm.group(1), "query_state").replace("State.", ".")))
    rows.append("  | s => s")
    out.append("/-- `query_state`: the state left behind after reporting the current one. -/")
    out.append("def queryNext : State → State\n" + "\n".join(rows))
    out.append("")

    # --- handlers of the form  match self.state { A | B => { self.state = X; ...; Some(Ack(op)) } _ => None }
    def guarded_match(name, opname):
        body = method(name)
        mbody, pre, post = the_match(body, "self.state", name)
        if squash(pre) or squash(post):
            raise TranslateError(name + ": code around the match")
        arms = match_arms(mbody, name)
        if len(arms) != 2 or arms[1] != ("_", "None"):
            raise TranslateError(name + ": expected one state arm and `_ => None`")
        p, e = arms[0]
        mm = re.fullmatch(r"\{self\.state=(State::\w+);(.*)Some\(Message::AckOperation\(self\.address,Operation::(\w+)\)\)\}", e)
        if not mm or mm.group(3) != opname:
            raise TranslateError(name + ": unrecognised arm body " + e)
        return state_set(p, name), state(mm.group(1), name).replace("State.", "."), mm.group(2)

    def guarded_if(name, opname, reset=False):
        body = squash(method(name))
        if reset:
            mm = re.fullmatch(r"ifself\.state==(State::\w+)\{self\.reset\(\);Some\(Message::AckOperation\(self\.address,Operation::(\w+)\)\)\}else\{None\}", body)
            if not mm or mm.group(2) != opname:
                raise TranslateError(name + ": unrecognised body")
            return [state(mm.group(1), name).replace("State.", ".")], None, ""
        mm = re.fullmatch(r"ifself\.state==(State::\w+)\{self\.state=(State::\w+);Some\(Message::AckOperation\(self\.address,Operation::(\w+)\)\)\}else\{None\}", body)
        if not mm or mm.group(3) != opname:
            raise TranslateError(name + ": unrecognised body")
        return [state(mm.group(1), name).replace("State.", ".")], state(mm.group(2), name).replace("State.", "."), ""

    table = []
    frm, to, extra = guarded_match("receive_config", "ReceiveConfig")
    if extra:
        raise TranslateError("receive_config: extra statements " + extra)
    table.append(("receiveConfig", frm, to))
    frm, to, extra = guarded_match("receive_pixels", "ReceivePixels")
    if extra != "self.pages.clear();":
        raise TranslateError("receive_pixels: expected exactly `self.pages.clear();` besides the state change, got " + extra)
    table.append(("receivePixels", frm, to))
    frm, to, _ = guarded_if("show_loaded_page", "ShowLoadedPage")
    table.append(("showLoadedPage", frm, to))
    frm, to, _ = guarded_if("load_next_page", "LoadNextPage")
    table.append(("loadNextPage", frm, to))
    frm, _, _ = guarded_if("finish_reset", "FinishReset", reset=True)
    # reset()
    body = squash(method("reset"))
    mm = re.fullmatch(r"self\.state=(State::\w+);self\.pages\.clear\(\);self\.pending_data\.clear\(\);self\.data_chunks=0;self\.width=0;self\.height=0;self\.sign_type=None;", body)
    if not mm:
        raise TranslateError("reset: unrecognised body")
    reset_state = state(mm.group(1), "reset").replace("State.", ".")
    table.append(("finishReset", frm, reset_state))
    # start_reset
    body = squash(method("start_reset"))
    mm = re.fullmatch(r"self\.state=(State::\w+);self\.pending_data\.clear\(\);self\.data_chunks=0;Message::AckOperation\(self\.address,Operation::StartReset\)", body)
    if not mm:
        raise TranslateError("start_reset: unrecognised body")
    start_reset_state = state(mm.group(1), "start_reset").replace("State.", ".")
    # goodbye
    if squash(method("goodbye")) != "self.reset();None":
        raise TranslateError("goodbye: unrecognised body")
    out.append("/-- The operations that are acknowledged only in certain states: the states in which the request is")
    out.append("    accepted and the state the sign moves to (`receive_config`, `receive_pixels`, `show_loaded_page`,")
    out.append("    `load_next_page`, `finish_reset` = `reset()`). -/")
    out.append("def opAccepts : Op → List State\n" + "\n".join("  | .%s => [%s]" % (o, ", ".join(f)) for o, f, _ in table) + "\n  | .startReset => State.all")
    out.append("def opTarget : Op → State\n" + "\n".join("  | .%s => %s" % (o, t) for o, _, t in table) + "\n  | .startReset => %s" % start_reset_state)
    out.append("/-- `reset()` (Goodbye, FinishReset). -/")
    out.append("def resetState : State := %s" % reset_state)
    out.append("")
    # pixels_complete
    body = method("pixels_complete")
    sq = squash(re.sub(r"for\s+page\s+in\s+&self\.pages\s*\{\s*info!\((?:[^()]|\([^()]*\))*\);\s*\}", "", body))
    mm = re.fullmatch(r"ifself\.state==(State::\w+)\{self\.state=matchself\.flip_style\{PageFlipStyle::Automatic=>(State::\w+),PageFlipStyle::Manual=>(State::\w+),?\};\}None", sq)
    if not mm:
        raise TranslateError("pixels_complete: unrecognised body")
    out.append("/-- `pixels_complete`: the state it acts in and the state it moves to for each flip style. -/")
    out.append("def completeFrom : State := %s" % state(mm.group(1), "pixels_complete").replace("State.", "."))
    out.append("def completeTo : FlipStyle → State\n  | .automatic => %s\n  | .manual => %s" % (
        state(mm.group(2), "pixels_complete").replace("State.", "."), state(mm.group(3), "pixels_complete").replace("State.", ".")))
    out.append("")
    # data_chunks_sent
    body = squash(method("data_chunks_sent", r"\s*,\s*chunks\s*:\s*ChunkCount\s*\)[^{]*"))
    mm = re.fullmatch(r"ifself\.data_chunks==u32::from\(chunks\.0\)\{matchself\.state\{(.*?)\}\}else\{matchself\.state\{(.*?)\}\}self\.flush_pixels\(\);self\.data_chunks=0;None", body)
    if not mm:
        raise TranslateError("data_chunks_sent: unrecognised body")

    def count_arms(text, what):
        rows = []
        arms = [a for a in text.split(",") if a]
        if not arms or arms[-1] != "_=>{}":
            raise TranslateError(what + ": last arm is not `_ => {}`")
        for a in arms[:-1]:
            m3 = re.fullmatch(r"(State::\w+)=>self\.state=(State::\w+)", a)
            if not m3:
                raise TranslateError(what + ": unrecognised arm " + a)
            rows.append("  | %s => %s" % (state(m3.group(1), what).replace("State.", "."), state(m3.group(2), what).replace("State.", ".")))
        rows.append("  | s => s")
        return "\n".join(rows)

    out.append("/-- `data_chunks_sent`: next state when the announced count matches / does not match. -/")
    out.append("def countOk : State → State\n" + count_arms(mm.group(1), "data_chunks_sent (match)"))
    out.append("def countBad : State → State\n" + count_arms(mm.group(2), "data_chunks_sent (mismatch)"))
    out.append("")
    # send_data: the two states in which data is taken
    body = squash(method("send_data", r"\s*,\s*offset\s*:\s*Offset\s*,\s*data\s*:\s*&\[u8\]\s*\)[^{]*"))
    mm = re.match(r"ifself\.state==(State::\w+)&&offset==Offset\((\w+)\)&&data\.len\(\)==(\w+)\{", body)
    m2 = re.search(r"\}elseifself\.state==(State::\w+)\{ifoffset==Offset\((\w+)\)\{self\.flush_pixels\(\);\}self\.pending_data\.extend_from_slice\(data\);self\.data_chunks=self\.data_chunks\.saturating_add\(1\);\}None$", body)
    if not mm or not m2:
        raise TranslateError("send_data: unrecognised guards")
    out.append("/-- `send_data`: a chunk is taken as configuration in `configState` at offset `configOffset` with")
    out.append("    exactly `configChunkLen` bytes, and as pixel data in `pixelState` (a chunk at `flushOffset` first")
    out.append("    flushes the page in progress). -/")
    out.append("def configState : State := %s" % state(mm.group(1), "send_data").replace("State.", "."))
    out.append("def configOffset : Nat := %d" % num(mm.group(2), "send_data"))
    out.append("def configChunkLen : Nat := %d" % num(mm.group(3), "send_data"))
    out.append("def pixelState : State := %s" % state(m2.group(1), "send_data").replace("State.", "."))
    out.append("def flushOffset : Nat := %d" % num(m2.group(2), "send_data"))
    # the family / width / height bytes
    m3 = re.search(r"let\(kind,width,height\)=matchdata\[0\]\{(.*?)\};", body)
    if not m3:
        raise TranslateError("send_data: unrecognised configuration digest")
    fam = [a for a in split_top(m3.group(1)) if a]
    want = [r'(\w+)=>\("Max3000",data\[(\w+)\.\.(\w+)\]\.iter\(\)\.map\(\|&b\|u32::from\(b\)\)\.sum\(\),data\[(\w+)\]\)',
            r'(\w+)=>\("Horizon",u32::from\(data\[(\w+)\]\),data\[(\w+)\]\)', r"_=>returnNone"]
    if len(fam) != 3:
        raise TranslateError("send_data: expected three family arms")
    a, b, c = (re.fullmatch(w, f) for w, f in zip(want, fam))
    if not (a and b and c):
        raise TranslateError("send_data: unrecognised family arms")
    out.append("/-- configuration digest: family byte → (indices summed for the width, index of the height byte). -/")
    out.append("def digest (fam : UInt8) : Option (List Nat × Nat) :=")
    out.append("  if fam = %s then some (List.range' %d (%d - %d), %d)" % (hexb(num(a.group(1), "fam")), num(a.group(2), "lo"), num(a.group(3), "hi"), num(a.group(2), "lo"), num(a.group(4), "h")))
    out.append("  else if fam = %s then some ([%d], %d)" % (hexb(num(b.group(1), "fam")), num(b.group(2), "w"), num(b.group(3), "h")))
    out.append("  else none")
    return [path], "\n".join(out) + "\n"


def gen_controller(repo):
    import translate_ctrl
    return translate_ctrl.gen_controller(repo)


def gen_vsign_full(repo):
    import translate_vsign
    return translate_vsign.gen_vsign_full(repo)


def gen_core(repo):
    import translate_core
    files, body = translate_core.gen_core(repo)
    gen_core.notes = translate_core.gen_core.notes
    return files, body


def gen_frame_io(repo):
    """Frame::read / Frame::write, recognised as wholes (token for token, layout and comments aside): what std's
    BufReader::read_until and Write::write_all do underneath is Model/Io.lean, written from their documented contracts."""
    path = "libs/core/src/frame.rs"
    src = strip_comments(open(os.path.join(repo, path)).read())
    rd = squash(fn_body(src, r"pub\s+fn\s+read\s*<\s*R\s*:\s*Read\s*>\s*\(\s*mut\s+reader\s*:\s*&mut\s+R\s*\)\s*->\s*Result<Self,\s*FrameError>\s*\{", "Frame::read"))
    m = re.fullmatch(r"letmutbuf_reader=BufReader::with_capacity\((\d+),&mutreader\);"
                     r"letmutdata=Vec::<u8>::new\(\);"
                     r"let_=buf_reader\.read_until\(b'(\\?.)',&mutdata\)\?;"
                     r"letframe=Frame::from_bytes\(&data\)\?;"
                     r"Ok\(frame\)", rd)
    if not m:
        raise TranslateError("Frame::read is not the pinned five statements (one-byte BufReader, read_until, from_bytes, Ok)")
    cap = int(m.group(1))
    lit = m.group(2)
    if lit.startswith("\\"):
        delim = {"n": 10, "r": 13, "t": 9, "0": 0}.get(lit[1])
    else:
        delim = ord(lit)
    if delim is None:
        raise TranslateError("Frame::read: delimiter literal not understood")
    wr = squash(fn_body(src, r"pub\s+fn\s+write\s*<\s*W\s*:\s*Write\s*>\s*\(\s*&self\s*,\s*writer\s*:\s*&mut\s+W\s*\)\s*->\s*Result<\(\),\s*FrameError>\s*\{", "Frame::write"))
    if wr != "writer.write_all(&self.to_bytes_with_newline())?;Ok(())":
        raise TranslateError("Frame::write is not `writer.write_all(&self.to_bytes_with_newline())?; Ok(())`")
    out = ["/-- `Frame::read` is the pinned five statements: a `BufReader` of this capacity over the reader … -/",
           "def readBufferCapacity : Nat := %d" % cap,
           "/-- … `read_until` this delimiter into a fresh vector, `?`; `Frame::from_bytes` of the line, `?`; `Ok(frame)`. -/",
           "def readDelimiter : UInt8 := %d" % delim,
           "/-- `Frame::write` is `writer.write_all(&self.to_bytes_with_newline())?; Ok(())`. -/",
           "def writeIsWriteAllOfEncodingWithNewline : Bool := true", ""]
    return [path], "\n".join(out)


def gen_serial_bus(repo):
    import translate_serial
    gen_serial(repo)   # the tables it applies must be readable too (their file is regenerated with topic Serial)
    return translate_serial.gen_serial_bus(repo)


TOPICS = {
    "Core": (gen_core, ["Flipdot.Tie.CoreSupport"], "Flipdot.Generated.Core"),
    "VSignFull": (gen_vsign_full, ["Flipdot.Tie.VSignSupport"], "Flipdot.Generated.VSignFull"),
    "Controller": (gen_controller, ["Flipdot.Tie.CtrlSupport"], "Flipdot.Generated.Controller"),
    "Message": (gen_message, ["Flipdot.Tie.Kind"], "Flipdot.Generated.Message"),
    "SignType": (gen_signtype, ["Flipdot.Model.SignType"], "Flipdot.Generated.SignType"),
    "Serial": (gen_serial, ["Flipdot.Tie.Kind"], "Flipdot.Generated.Serial"),
    "VSign": (gen_vsign, ["Flipdot.Tie.Kind", "Flipdot.Tie.Handler"], "Flipdot.Generated.VSign"),
    "FrameIo": (gen_frame_io, ["Flipdot.Model.Io"], "Flipdot.Generated.FrameIo"),
    "SerialBus": (gen_serial_bus, ["Flipdot.Generated.Serial", "Flipdot.Tie.SerialSupport"], "Flipdot.Generated.SerialBus"),
}


def translate(repo, outdir, topics=None):
    os.makedirs(outdir, exist_ok=True)
    status = {}
    for topic, (gen, imports, ns) in TOPICS.items():
        if topics and topic not in topics:
            continue
        target = os.path.join(outdir, topic + ".lean")
        try:
            files, body = gen(repo)
            head, sha = header(topic, files, repo)
            text = (head + "".join("import %s\n" % i for i in imports) + "set_option linter.unusedVariables false\n"
                    + "namespace %s\nopen Flipdot\n\n" % ns + body + "\nend %s\n" % ns)
            old = open(target).read() if os.path.exists(target) else None
            if old != text:
                with open(target + ".tmp", "w") as f:
                    f.write(text)
                os.replace(target + ".tmp", target)
            status[topic] = {"status": "generated", "files": files, "sha256": sha, "changed": old != text}
            if getattr(gen, "notes", None):
                status[topic]["notes"] = gen.notes
        except (TranslateError, OSError, AssertionError, IndexError, TypeError, ValueError, KeyError) as e:
            status[topic] = {"status": "unavailable", "reason": str(e)}
    return status


if __name__ == "__main__":
    repo = sys.argv[1] if len(sys.argv) > 1 else "/repo"
    here = os.path.dirname(os.path.abspath(__file__))
    outdir = sys.argv[2] if len(sys.argv) > 2 else os.path.join(here, "lean", "Flipdot", "Generated")
    import translate as _self  # one copy of TranslateError, shared with translate_ctrl
    print(json.dumps(_self.translate(repo, outdir), indent=1))
